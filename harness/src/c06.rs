// C06 Conversions stay inside caller buffers and honour the read/written contract.
// Oracle: the contract itself (returned tuples), guard bands round every buffer, no panic when documented
// minimum sizes and preconditions are respected, no reallocation for String/Vec receivers; the same
// workload also runs under AddressSanitizer (poisoned guards), the UB interpreter and memcheck.
use crate::drive::*;
use crate::ev::*;
use crate::hist::*;
use crate::memfn::*;
use crate::util::*;
use encoding_rs::*;
use std::panic::{catch_unwind, AssertUnwindSafe};

const MINE: [FailKind; 4] = [FailKind::Contract, FailKind::Guard, FailKind::Panic, FailKind::Realloc];

pub fn judge_dec(ev: &mut Ev, case: &DecCase, out: &DecOut) {
    ev.count("contract.decode-histories");
    ev.count_n("contract.decode-calls", out.calls.len() as u64);
    for f in out.fails.iter() { if MINE.contains(&f.0) {
        let msg = if f.0 == FailKind::Panic { f.1.chars().take(60).collect::<String>() } else { String::new() };
        ev.violation(&format!("{:?}", f.0).to_lowercase(), &format!("decode:{}:{:?}:{}", crate::c01::family(case.enc), case.sink, msg), format!("{} | {} | calls: {}", f.1, case.describe(), fmt_calls(&out.calls)));
    } }
}
pub fn judge_enc(ev: &mut Ev, case: &EncCase, out: &EncOut) {
    ev.count("contract.encode-histories");
    ev.count_n("contract.encode-calls", out.calls.len() as u64);
    for f in out.fails.iter() { if MINE.contains(&f.0) {
        let msg = if f.0 == FailKind::Panic { f.1.chars().take(60).collect::<String>() } else { String::new() };
        ev.violation(&format!("{:?}", f.0).to_lowercase(), &format!("encode:{}:{}:{}", crate::c01::ofam(case.enc), if case.src16 { "utf16" } else { "utf8" }, msg), format!("{} | {} | calls: {}", f.1, case.describe(), fmt_calls(&out.calls)));
    } }
}

pub fn check_mem(drv: &mut Driver, ev: &mut Ev, f: MemFn, src: &Src, dl: usize, fill: u8, sa: usize, da: usize, filler: usize) {
    let tr = ev.case(); ev.api_calls += 1;
    let exp = expect(f, src, dl);
    let out = drv.run_mem(f, src, dl, fill, sa, da, filler);
    if tr { println!("TRACE {} {} dst_len={} fill={:02x} align={}/{} -> ret={:?} panic={:?} guard={:?}", f.name(), src.describe(f), dl, fill, sa, da, out.ret, out.panic, out.guard); }
    ev.count("contract.mem-calls");
    if let Some(g) = &out.guard { ev.violation("guard", &format!("mem::{}", f.name()), format!("{} | {} dst_len={} align={}/{}", g, src.describe(f), dl, sa, da)); }
    if exp.panics {
        // Destination shorter than documented: the property only demands that nothing is written OUTSIDE the destination
        // (guard check above). Whether the documented panic happens, and whether it happens before any write, is recorded
        // as evidence but is not part of C06 as stated, so it is not a verdict.
        ev.count("contract.mem-short-destination-calls");
        match &out.panic {
            None => ev.count("contract.mem-short-destination-accepted-without-panic"),
            Some(_) => {
                let fill16 = (fill as u16) << 8 | fill as u16;
                let touched = match f.dst_kind() { DstKind::D16 => out.dst16.iter().any(|x| *x != fill16), DstKind::D8 => out.dst8.iter().any(|x| *x != fill), _ => false };
                ev.count(if touched { "contract.mem-precondition-panic-after-a-write" } else { "contract.mem-precondition-panic-before-any-write" });
            }
        }
        return;
    }
    if let Some(p) = &out.panic { ev.violation("panic", &format!("mem::{}:{}", f.name(), p.chars().take(50).collect::<String>()), format!("panicked although the documented sizes and preconditions were respected: {} | {} dst_len={}", p, src.describe(f), dl)); return; }
    let n = src.len(f) as i64;
    if out.ret.0 > n || (out.ret.1 > dl as i64 && !matches!(f.dst_kind(), DstKind::Cow | DstKind::InPlace)) { ev.violation("contract", &format!("mem::{}:counts", f.name()), format!("returned {:?} for {} source units and {} destination units", out.ret, n, dl)); }
}

pub fn run(ctx: &Ctx, ev: &mut Ev) {
    let mut drv = Driver::new();
    if ctx.mode == Mode::Miri { return miri(ctx, ev, &mut drv); }
    let th = ctx.thorough();
    let tiny = ctx.mode == Mode::Miri || ctx.mode == Mode::Vg;
    // (a) decode histories: random streams, lengths 0..~100 and large, every alignment, all sinks, all BOM modes
    if ctx.want("dec") {
        let mut r = ctx.rng(61);
        let n = ctx.budget(1_500_000, 16_000_000);
        for i in 0..n {
            let enc = ALL[r.below(40)];
            let stream = random_stream(&mut r, enc, if !tiny && i % 30 == 0 { 40 } else if tiny { 2 } else { 4 });
            let stream = if stream.len() > 4000 { &stream[..4000] } else { &stream[..] };
            let sink = SINKS[r.below(4)];
            let cuts = random_cuts(&mut r, stream.len());
            let caps = random_caps(&mut r, dec_min_cap(sink), true);
            let case = DecCase { enc, bom: BOMS[r.below(3)], sink, repl: r.chance(2), stream, cuts: &cuts, last_sep: r.chance(2), caps: &caps, fill: [0u8, 0xFF, 0xA5][r.below(3)], src_align: r.below(16), dst_align: r.below(16), filler: r.below(16) };
            let tr = ev.case();
            let out = drv.run_dec(&case, ev);
            if tr { println!("TRACE {} | calls: {} | fails: {:?}", case.describe(), fmt_calls(&out.calls), out.fails); }
            judge_dec(ev, &case, &out);
            if stream.len() > 0 { ev.nontrivial_hash(case.hash()); }
            ev.state(H::new().s(crate::c01::family(enc)).u(sink as u64).u((stream.len() % 16) as u64).get(), || format!("dec {} {:?} len%16={}", crate::c01::family(enc), sink, stream.len() % 16));
            ev.sample(|| format!("{} -> {} calls", case.describe(), out.calls.len()));
        }
    }
    // (b) bounded-exhaustive decode histories at the documented minimum capacities (space-check thresholds)
    if ctx.want("decenum") && !tiny {
        let sp = DecSpace { encs: families(), small_alpha: true, maxlen: 3, utf16_extra: 1, boms: vec![Bom::Sniff, Bom::Off], sinks: vec![Sink::U8, Sink::U16, Sink::String], repls: vec![true, false],
            cap_offsets: vec![vec![0], vec![1], vec![2], vec![3]], last_seps: vec![false, true], stride: if th { 1 } else { 8 }, prefixes: vec![vec![], vec![0xEF], vec![0xEF, 0xBB], vec![0xFE], vec![0xFF]], fills: vec![0xA5], token_streams: (3, 2) };
        ev.note(format!("decenum: {}", sp.describe()));
        enum_dec(ctx, ev, &sp, |case, _ng, ev| { let tr = ev.case(); let out = drv.run_dec(case, ev); if tr { println!("TRACE {} | calls: {} | fails: {:?}", case.describe(), fmt_calls(&out.calls), out.fails); } judge_dec(ev, case, &out); ev.nontrivial_enum(); });
    }
    // (c) encode histories
    if ctx.want("enc") {
        let mut r = ctx.rng(62);
        let n = ctx.budget(1_200_000, 12_000_000);
        for i in 0..n {
            let enc = ALL[r.below(40)];
            let src16 = r.chance(2);
            let t = random_text(&mut r, if !tiny && i % 30 == 0 { 20 } else if tiny { 2 } else { 4 }, src16);
            let t = if t.len() > 1500 { &t[..1500] } else { &t[..] };
            if t.windows(2).any(|w| (0xD800..0xDC00).contains(&w[0]) && (0xDC00..0xE000).contains(&w[1])) { continue; }
            let repl = r.chance(2);
            let cuts = random_cuts(&mut r, t.len());
            let caps = random_caps(&mut r, enc_min_cap(repl), true);
            let case = EncCase { enc, src16, vec_sink: !src16 && r.chance(3), repl, atoms: t, cuts: &cuts, last_sep: r.chance(2), caps: &caps, fill: [0u8, 0xFF, 0xA5][r.below(3)], src_align: r.below(16), dst_align: r.below(16) };
            let tr = ev.case();
            let out = drv.run_enc(&case, ev);
            if tr { println!("TRACE {} | calls: {} | fails: {:?}", case.describe(), fmt_calls(&out.calls), out.fails); }
            judge_enc(ev, &case, &out);
            if !t.is_empty() { ev.nontrivial_hash(case.hash()); }
            ev.state(H::new().s(crate::c01::ofam(enc)).u(src16 as u64).u(9).get(), || format!("enc {} src16={}", crate::c01::ofam(enc), src16));
        }
    }
    if ctx.want("encenum") && !tiny {
        let mut alpha = crate::alpha::SCALARS_SMALL.to_vec(); alpha.push(0xD800); alpha.push(0xDC00);
        let sp = EncSpace { encs: crate::alpha::encoder_families(), alpha, maxlen: 2, src16s: vec![false, true], vec_sinks: vec![false, true], repls: vec![false, true],
            cap_offsets: vec![vec![0], vec![1], vec![2], vec![3], vec![5]], last_seps: vec![false, true], stride: if th { 1 } else { 2 }, fills: vec![0xA5], per_encoder: true };
        ev.note(format!("encenum: {}", sp.describe()));
        enum_enc(ctx, ev, &sp, |case, _ng, ev| { let tr = ev.case(); let out = drv.run_enc(case, ev); if tr { println!("TRACE {} | calls: {} | fails: {:?}", case.describe(), fmt_calls(&out.calls), out.fails); } judge_enc(ev, case, &out); ev.nontrivial_enum(); });
    }
    // (d) every mem function: sufficient, exact and too-short destinations, every alignment
    if ctx.want("mem") {
        let mut r = ctx.rng(63);
        let n = ctx.budget(2_000_000, 16_000_000);
        for i in 0..n {
            let f = ALL_MEM[r.below(ALL_MEM.len())];
            let mut src = gen_src(&mut r, f.src_kind(), if !tiny && i % 100 == 0 { 60 } else if tiny { 2 } else { 4 });
            // precondition-violating *content* for the lossy functions: memory safety only, and only where no debug assertion documents a panic
            if !cfg!(debug_assertions) && r.chance(8) { match f { Utf8ToLatin1Lossy | EncodeLatin1Lossy => { src.bytes.extend_from_slice("\u{100}\u{4E00}x\u{1F4A9}".as_bytes()); if f == Utf8ToLatin1Lossy && r.chance(2) { src.bytes.push(0xC3); } } Utf16ToLatin1Lossy => { src.units.push(0x100); src.units.push(0xD83D); src.units.push(0x4E00); } _ => {} } }
            let nsrc = src.len(f);
            let mut dl = gen_dst_len(&mut r, f, nsrc);
            if f.panics_when_short() && r.chance(10) && f.sufficient(nsrc) > 0 { dl = r.below(f.sufficient(nsrc)); }
            let lossy_violated = match f { Utf8ToLatin1Lossy | EncodeLatin1Lossy => std::str::from_utf8(&src.bytes).map(|s| s.chars().any(|c| c as u32 > 0xFF)).unwrap_or(true), Utf16ToLatin1Lossy => src.units.iter().any(|u| *u > 0xFF), _ => false };
            if lossy_violated {
                // memory safety only
                ev.case(); ev.api_calls += 1; ev.count("contract.mem-lossy-precondition-violated-calls");
                if dl < f.sufficient(nsrc) { continue; }
                let out = drv.run_mem(f, &src, dl, 0xA5, r.below(16), r.below(16), 0);
                if let Some(g) = &out.guard { ev.violation("guard", &format!("mem::{}", f.name()), format!("{} | {} dst_len={}", g, src.describe(f), dl)); }
                if out.panic.is_some() { ev.violation("panic", &format!("mem::{}:lossy-garbage-in", f.name()), format!("panic on out-of-range input in a build without debug assertions (documented as memory-safe garbage): {:?} | {}", out.panic, src.describe(f))); }
                continue;
            }
            check_mem(&mut drv, ev, f, &src, dl, [0u8, 0xFF, 0xA5][r.below(3)], r.below(16), r.below(16), r.below(16));
            if nsrc > 0 { ev.nontrivial_hash(H::new().s(f.name()).b(&src.bytes).u16s(&src.units).u(dl as u64).get()); }
            ev.state(H::new().s(f.name()).u((nsrc % 16) as u64).get(), || format!("mem {} len%16={}", f.name(), nsrc % 16));
        }
    }
    // (d2) systematic sources for the UTF-8 / UTF-16 readers: every pair/triple of tokens (whole characters of every length,
    // every truncation, ill-formed subsequences) so that every look-ahead meets the exact end of the source
    if ctx.want("memtokens") {
        let toks = crate::alpha::utf8_tokens();
        let idx: Vec<usize> = (0..toks.len()).collect();
        for seq in strings_over(&idx, if tiny { 2 } else { 3 }).iter() {
            if seq.is_empty() || !ev.mine() { continue; }
            if tiny && (seq[0] * 7 + seq.len()) % 5 != 0 { continue; }
            let mut bytes = vec![]; for t in seq { bytes.extend_from_slice(toks[*t]); }
            let src = Src { bytes, units: vec![] };
            for f in [Utf8ToUtf16, Utf8ToUtf16NoRepl, Latin1ToUtf16, Latin1ToUtf8, DecodeLatin1, CopyAsciiToAscii] { let dl = f.sufficient(src.bytes.len()); check_mem(&mut drv, ev, f, &src, dl, 0xA5, seq.len() % 16, (seq[0] * 3) % 16, 0); }
            if std::str::from_utf8(&src.bytes).is_ok() { check_mem(&mut drv, ev, StrToUtf16, &src, src.bytes.len(), 0xA5, 1, 2, 0); }
            // the same bytes through the UTF-8 decoder to both sinks, whole and byte per call
            for sink in [Sink::U16, Sink::U8] { for cuts in [vec![], (1..src.bytes.len()).collect::<Vec<usize>>()] {
                let caps = [if sink == Sink::U16 { src.bytes.len() + 2 } else { src.bytes.len() * 3 + 4 }];
                let case = DecCase { enc: UTF_8, bom: Bom::Off, sink, repl: seq.len() % 2 == 0, stream: &src.bytes, cuts: &cuts, last_sep: false, caps: &caps, fill: 0xA5, src_align: seq[0] % 16, dst_align: 0, filler: 0 };
                ev.case(); let out = drv.run_dec(&case, ev); judge_dec(ev, &case, &out); ev.nontrivial_enum();
            } }
            ev.nontrivial_enum();
        }
        for seq in strings_over(&crate::alpha::UTF16_UNITS, if tiny { 2 } else { 4 }).iter() {
            if seq.is_empty() || !ev.mine() { continue; }
            let src = Src { bytes: vec![], units: seq.clone() };
            for f in [Utf16ToUtf8, Utf16ToUtf8Partial, Utf16ToStrPartial, EnsureUtf16Validity, CopyBasicLatinToAscii] { for dl in [f.sufficient(seq.len()), seq.len(), seq.len() * 3 - 1, seq.len() + 1] { if f.panics_when_short() && dl < f.sufficient(seq.len()) { continue; } check_mem(&mut drv, ev, f, &src, dl, 0xA5, (seq.len() * 2) % 16, 3, 1); } }
            ev.nontrivial_enum();
        }
    }
    // (e) read-only functions over guarded sources at every alignment and length (sanitizer-observed), and one-shot APIs
    if ctx.want("readonly") {
        let mut r = ctx.rng(64);
        let n = ctx.budget(150_000, 4_000_000);
        for i in 0..n {
            let enc = ALL[r.below(40)];
            let s = random_stream(&mut r, enc, if !tiny && i % 50 == 0 { 30 } else { 3 });
            let sa = r.below(16);
            let b = drv.src8.carve_from(&s, sa);
            ev.case(); ev.api_calls += 14;
            let res = catch_unwind(AssertUnwindSafe(|| {
                let mut acc = 0usize;
                acc += Encoding::utf8_valid_up_to(b) + Encoding::ascii_valid_up_to(b) + Encoding::iso_2022_jp_ascii_valid_up_to(b);
                acc += encoding_rs::mem::is_ascii(b) as usize + encoding_rs::mem::is_utf8_latin1(b) as usize + encoding_rs::mem::is_utf8_bidi(b) as usize + encoding_rs::mem::utf8_latin1_up_to(b);
                acc += encoding_rs::mem::check_utf8_for_latin1_and_bidi(b) as usize;
                let d = new_decoder(enc, BOMS[i as usize % 3]);
                acc += d.latin1_byte_compatible_up_to(b).unwrap_or(0);
                acc += Encoding::for_bom(b).map(|x| x.1).unwrap_or(0);
                acc += Encoding::for_label(b).is_some() as usize;
                let (c, _, _) = enc.decode(b); acc += c.len();
                let (c, _) = enc.decode_without_bom_handling(b); acc += c.len();
                if let Ok(st) = std::str::from_utf8(b) { let (c, _, _) = enc.encode(st); acc += c.len(); acc += encoding_rs::mem::is_str_bidi(st) as usize + encoding_rs::mem::is_str_latin1(st) as usize + encoding_rs::mem::str_latin1_up_to(st); }
                acc
            }));
            ev.count("contract.readonly-inputs");
            if let Err(e) = res { let m = panic_message(&e); ev.violation("panic", &format!("readonly:{}", m.chars().take(50).collect::<String>()), format!("panic in a read-only / one-shot function: {} | enc={} input={}", m, enc.name(), hexs(&s))); }
            if i % 3 == 0 {
                let u: Vec<u16> = gen_src(&mut r, SrcKind::Units, 3).units;
                let ub = drv.src16.carve_from(&u, sa);
                ev.api_calls += 5;
                let res = catch_unwind(AssertUnwindSafe(|| encoding_rs::mem::is_basic_latin(ub) as usize + encoding_rs::mem::is_utf16_latin1(ub) as usize + encoding_rs::mem::is_utf16_bidi(ub) as usize + encoding_rs::mem::utf16_valid_up_to(ub) + encoding_rs::mem::check_utf16_for_latin1_and_bidi(ub) as usize));
                if let Err(e) = res { let m = panic_message(&e); ev.violation("panic", &format!("readonly16:{}", m.chars().take(50).collect::<String>()), format!("panic in a read-only function: {} | units=[{}]", m, hex16(&u))); }
            }
            if !s.is_empty() { ev.nontrivial_hash(H::new().b(&s).u(sa as u64).u(3).get()); }
        }
    }
    // (f) String / Vec receivers with long existing contents and spare capacity on both sides of one and two pages
    // (the receivers pre-touch their spare capacity page by page): no reallocation, existing contents untouched,
    // growth within the spare capacity; under ASan the heap red zones watch the end of the allocation
    if ctx.want("bigsink") && !tiny {
        let mut r = ctx.rng(66);
        let plens = [0usize, 1, 4095, 4096, 4097, 8191, 8192, 9001];
        let spares = [4usize, 14, 100, 4095, 4096, 4097, 8192, 12289];
        for &enc in ALL.iter() {
            for &plen in plens.iter() { for &spare in spares.iter() {
                if !ev.mine() { continue; }
                let tr = ev.case();
                let mut stream: Vec<u8> = vec![];
                let want = [spare / 3, spare, spare * 2][r.below(3)].max(8);
                while stream.len() < want { let seg = random_stream(&mut r, enc, 6); if seg.is_empty() { stream.push(0x61); } else { stream.extend_from_slice(&seg); } }
                stream.truncate(want);
                let desc = format!("enc={} existing={} spare={} stream={} bytes", enc.name(), plen, spare, stream.len());
                if tr { println!("TRACE bigsink {} stream={}", desc, hex(&stream)); }
                let mut text = String::new();
                for repl in [true, false] {
                    let mut s = String::with_capacity(plen + spare);
                    while s.len() + 3 <= plen { s.push('\u{20AC}'); } while s.len() < plen { s.push('p'); }
                    while s.capacity() - s.len() > spare { s.push('p'); }
                    let (ptr, capacity, pl) = (s.as_ptr() as usize, s.capacity(), s.len());
                    let pre = s.clone().into_bytes();
                    let mut d = enc.new_decoder_without_bom_handling();
                    let res = catch_unwind(AssertUnwindSafe(|| { if repl { d.decode_to_string(&stream, &mut s, true).1 } else { d.decode_to_string_without_replacement(&stream, &mut s, true).1 } }));
                    ev.api_calls += 1; ev.count("contract.bigsink-calls");
                    let key = format!("bigsink:{}:{}", crate::c01::family(enc), if repl { "decode_to_string" } else { "decode_to_string_without_replacement" });
                    if let Err(e) = &res { ev.violation("panic", &key, format!("panicked: {} | {}", panic_message(e), desc)); }
                    if s.as_ptr() as usize != ptr || s.capacity() != capacity { ev.violation("realloc", &key, format!("String reallocated (capacity {} -> {}) | {}", capacity, s.capacity(), desc)); }
                    else if s.len() < pl || s.as_bytes()[..pl] != pre[..] { let at = s.as_bytes().iter().zip(pre.iter()).position(|(a, b)| a != b); ev.violation("realloc", &format!("{}:existing-contents", key), format!("existing String contents altered (first difference at byte {:?}, length {} -> {}) | {}", at, pl, s.len(), desc)); }
                    if std::str::from_utf8(s.as_bytes()).is_err() { ev.count("foreign.invalid-str(C05)"); }
                    if repl && res.is_ok() && s.len() >= pl { text = String::from_utf8_lossy(&s.as_bytes()[pl..]).into_owned(); }
                }
                if text.is_empty() { text = "a\u{E9}\u{3042}\u{1F4A9}".repeat(1 + spare / 20); }
                for api in 0..2 {
                    if api == 0 && spare < 14 { continue; }
                    let mut v: Vec<u8> = Vec::with_capacity(plen + spare);
                    for i in 0..plen { v.push((i * 7 + 3) as u8); }
                    while v.capacity() - v.len() > spare { v.push(0x5A); }
                    let (ptr, capacity, pl) = (v.as_ptr() as usize, v.capacity(), v.len());
                    let pre = v.clone();
                    let mut e = enc.new_encoder();
                    let res = catch_unwind(AssertUnwindSafe(|| match api { 0 => { e.encode_from_utf8_to_vec(&text, &mut v, true); } _ => { e.encode_from_utf8_to_vec_without_replacement(&text, &mut v, true); } }));
                    ev.api_calls += 1; ev.count("contract.bigsink-calls");
                    let key = format!("bigsink:{}:{}", crate::c01::ofam(enc), ["encode_from_utf8_to_vec", "encode_from_utf8_to_vec_without_replacement"][api]);
                    // with replacement the documented minimum is room for one numeric character reference plus one character
                    if let Err(er) = &res { ev.violation("panic", &key, format!("panicked: {} | {}", panic_message(er), desc)); }
                    if v.as_ptr() as usize != ptr || v.capacity() != capacity { ev.violation("realloc", &key, format!("Vec reallocated (capacity {} -> {}) | {}", capacity, v.capacity(), desc)); }
                    else if v.len() < pl || v[..pl] != pre[..] { let at = v.iter().zip(pre.iter()).position(|(a, b)| a != b); ev.violation("realloc", &format!("{}:existing-contents", key), format!("existing Vec contents altered (first difference at byte {:?}, length {} -> {}) | {}", at, pl, v.len(), desc)); }
                }
                ev.nontrivial_enum();
            } }
        }
    }
}

/// Dedicated small workload for the UB interpreter (about 0.2-0.7 s per call): the same monitors, a few hundred calls per shard.
fn miri(ctx: &Ctx, ev: &mut Ev, drv: &mut Driver) {
    let mut r = ctx.rng(66);
    let th = ctx.thorough();
    for _ in 0..(if th { 40 } else { 10 }) {
        let enc = ALL[r.below(40)];
        let stream = random_stream(&mut r, enc, 1); let stream = &stream[..stream.len().min(48)];
        let sink = SINKS[r.below(4)]; let cuts = random_cuts(&mut r, stream.len()); let caps = random_caps(&mut r, dec_min_cap(sink), false);
        let case = DecCase { enc, bom: BOMS[r.below(3)], sink, repl: r.chance(2), stream, cuts: &cuts[..cuts.len().min(3)], last_sep: r.chance(2), caps: &caps, fill: 0xA5, src_align: r.below(16), dst_align: r.below(16), filler: r.below(16) };
        ev.case(); let out = drv.run_dec(&case, ev); judge_dec(ev, &case, &out); ev.nontrivial_hash(case.hash());
        ev.sample(|| format!("{} -> {} calls", case.describe(), out.calls.len()));
    }
    for _ in 0..(if th { 28 } else { 6 }) {
        let enc = ALL[r.below(40)]; let src16 = r.chance(2);
        let t = random_text(&mut r, 1, src16); let t = &t[..t.len().min(40)];
        if t.windows(2).any(|w| (0xD800..0xDC00).contains(&w[0]) && (0xDC00..0xE000).contains(&w[1])) { continue; }
        let repl = r.chance(2); let cuts = random_cuts(&mut r, t.len()); let caps = random_caps(&mut r, enc_min_cap(repl), false);
        let case = EncCase { enc, src16, vec_sink: !src16 && r.chance(3), repl, atoms: t, cuts: &cuts[..cuts.len().min(3)], last_sep: r.chance(2), caps: &caps, fill: 0xA5, src_align: r.below(16), dst_align: r.below(16) };
        ev.case(); let out = drv.run_enc(&case, ev); judge_enc(ev, &case, &out); ev.nontrivial_hash(case.hash());
    }
    for i in 0..(if th { 150 } else { 24 }) {
        let f = ALL_MEM[(i + ctx.shard * 7) % ALL_MEM.len()];
        let src = gen_src(&mut r, f.src_kind(), 2);
        let src = Src { bytes: src.bytes[..src.bytes.len().min(70)].to_vec(), units: src.units[..src.units.len().min(70)].to_vec() };
        let src = if matches!(f.src_kind(), SrcKind::Str | SrcKind::Latin1Str) { let mut b = src.bytes.clone(); while std::str::from_utf8(&b).is_err() { b.pop(); } Src { bytes: b, units: vec![] } } else { src };
        let dl = gen_dst_len(&mut r, f, src.len(f));
        check_mem(drv, ev, f, &src, dl, 0xA5, r.below(16), r.below(16), r.below(16));
        ev.nontrivial_hash(H::new().s(f.name()).b(&src.bytes).u16s(&src.units).u(dl as u64).get());
    }
    // String / Vec receivers whose spare capacity spans page boundaries (the receivers pre-touch it page by page)
    for k in 0..(if th { 6 } else { 2 }) {
        let enc = ALL[r.below(40)];
        let spare = [4097usize, 9000, 12289][(k + ctx.shard) % 3]; let existing = [0usize, 5, 4096][(k + ctx.shard / 3) % 3];
        let stream = random_stream(&mut r, enc, 1); let stream = &stream[..stream.len().min(24)];
        ev.case(); ev.api_calls += 2; ev.count("contract.bigsink-calls");
        let mut s = String::with_capacity(existing + spare); for _ in 0..existing { s.push('p'); }
        let (ptr, cap) = (s.as_ptr() as usize, s.capacity());
        let mut d = enc.new_decoder_without_bom_handling();
        let res = catch_unwind(AssertUnwindSafe(|| { if k % 2 == 0 { d.decode_to_string(stream, &mut s, true); } else { d.decode_to_string_without_replacement(stream, &mut s, true); } }));
        if res.is_err() { ev.violation("panic", &format!("bigsink:{}:decode_to_string", crate::c01::family(enc)), format!("panicked | enc={} existing={} spare={} stream={}", enc.name(), existing, spare, hex(stream))); }
        if s.as_ptr() as usize != ptr || s.capacity() != cap || !s.as_bytes()[..existing].iter().all(|b| *b == b'p') { ev.violation("realloc", &format!("bigsink:{}:decode_to_string", crate::c01::family(enc)), format!("String reallocated or existing contents altered | enc={} existing={} spare={}", enc.name(), existing, spare)); }
        let mut v: Vec<u8> = Vec::with_capacity(existing + spare); for _ in 0..existing { v.push(0x5A); }
        let (ptr, cap) = (v.as_ptr() as usize, v.capacity());
        let mut e = enc.new_encoder();
        let res = catch_unwind(AssertUnwindSafe(|| { if k % 2 == 0 { e.encode_from_utf8_to_vec("a\u{E9}\u{3042}\u{1F4A9}z", &mut v, true); } else { e.encode_from_utf8_to_vec_without_replacement("a\u{E9}\u{3042}\u{1F4A9}z", &mut v, true); } }));
        if res.is_err() { ev.violation("panic", &format!("bigsink:{}:encode_from_utf8_to_vec", crate::c01::ofam(enc)), format!("panicked | enc={} existing={} spare={}", enc.name(), existing, spare)); }
        if v.as_ptr() as usize != ptr || v.capacity() != cap || !v[..existing].iter().all(|b| *b == 0x5A) { ev.violation("realloc", &format!("bigsink:{}:encode_from_utf8_to_vec", crate::c01::ofam(enc)), format!("Vec reallocated or existing contents altered | enc={} existing={} spare={}", enc.name(), existing, spare)); }
        ev.nontrivial_hash(H::new().s(enc.name()).b(stream).u(spare as u64).u(66).get());
    }
    let toks = crate::alpha::utf8_tokens();
    for _ in 0..(if th { 40 } else { 8 }) {
        let mut bytes = vec![]; for _ in 0..2 + r.below(2) { bytes.extend_from_slice(toks[r.below(toks.len())]); }
        let src = Src { bytes, units: vec![] };
        for f in [Utf8ToUtf16, Utf8ToUtf16NoRepl] { let dl = f.sufficient(src.bytes.len()); check_mem(drv, ev, f, &src, dl, 0xA5, r.below(16), r.below(16), 0); }
        let caps = [src.bytes.len() + 2];
        let case = DecCase { enc: UTF_8, bom: Bom::Off, sink: Sink::U16, repl: true, stream: &src.bytes, cuts: &[], last_sep: false, caps: &caps, fill: 0xA5, src_align: r.below(16), dst_align: 0, filler: 0 };
        ev.case(); let out = drv.run_dec(&case, ev); judge_dec(ev, &case, &out); ev.nontrivial_hash(case.hash());
    }
}
