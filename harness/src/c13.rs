// C13 Label resolution implements the Standard's get-an-encoding for all byte strings.
// Oracle: strip {09,0A,0C,0D,20} at both ends, ASCII-lowercase, exact lookup in oracle/labels.tsv
// (extracted from encodings.json via the pinned generated test, not from the arrays for_label searches).
use crate::ev::*;
use crate::util::*;
use encoding_rs::*;
use std::collections::HashMap;
use std::panic::{catch_unwind, AssertUnwindSafe};

pub struct Labels { pub map: HashMap<Vec<u8>, String>, pub list: Vec<Vec<u8>> }
pub fn labels() -> Labels {
    let mut map = HashMap::new(); let mut list = vec![];
    for l in include_str!("../../oracle/labels.tsv").lines() { let mut it = l.split('\t'); let lab = it.next().unwrap().as_bytes().to_vec(); let name = it.next().unwrap().to_string(); list.push(lab.clone()); map.insert(lab, name); }
    Labels { map, list }
}
pub fn static_name(e: &'static Encoding) -> String { e.name().to_uppercase().replace('-', "_") }
fn reference(l: &Labels, s: &[u8]) -> Option<String> {
    let ws = |b: &u8| matches!(*b, 0x09 | 0x0A | 0x0C | 0x0D | 0x20);
    let mut a = 0; let mut z = s.len();
    while a < z && ws(&s[a]) { a += 1; }
    while z > a && ws(&s[z - 1]) { z -= 1; }
    let t: Vec<u8> = s[a..z].iter().map(|b| b.to_ascii_lowercase()).collect();
    l.map.get(&t).cloned()
}
fn check(l: &Labels, ev: &mut Ev, s: &[u8], enumerated: bool) {
    let tr = ev.case(); ev.api_calls += 2;
    let exp = reference(l, s);
    let r = catch_unwind(AssertUnwindSafe(|| (Encoding::for_label(s).map(static_name), Encoding::for_label_no_replacement(s).map(static_name))));
    ev.count("label-reference.strings");
    let trimmed_is_label = exp.is_some();
    // non-trivial: not byte-identical to a label (edit, case variant, padding) or a near miss
    if s.len() > 64 || !l.map.contains_key(s) { if enumerated { ev.nontrivial_enum(); } else { ev.nontrivial_hash(H::new().b(s).get()); } }
    let show = || String::from_utf8_lossy(&s[..s.len().min(80)]).into_owned();
    if tr { println!("TRACE for_label({:?}) [{}] -> {:?}, reference {:?}", show(), hexs(s), r.as_ref().ok(), exp); }
    match r {
        Err(e) => ev.violation("label-reference", "panic", format!("for_label panicked: {} | input {:?} [{}]", panic_message(&e), show(), hexs(s))),
        Ok((got, got_nr)) => {
            if got != exp { ev.violation("label-reference", if got.is_some() && exp.is_none() { "accepts-non-label" } else if got.is_none() { "rejects-label" } else { "wrong-encoding" }, format!("for_label({:?}) [{}] = {:?}, get-an-encoding gives {:?}", show(), hexs(s), got, exp)); }
            let exp_nr = exp.clone().filter(|x| x != "REPLACEMENT");
            if got_nr != exp_nr { ev.violation("label-reference", "no_replacement", format!("for_label_no_replacement({:?}) = {:?}, expected {:?}", show(), got_nr, exp_nr)); }
        }
    }
    ev.state(H::new().u(trimmed_is_label as u64).u(s.len().min(24) as u64).get(), || format!("resolves={} len={}", trimmed_is_label, s.len().min(24)));
    ev.sample(|| format!("for_label({:?}) -> {:?}", show(), exp));
}

pub fn run(ctx: &Ctx, ev: &mut Ev) {
    let l = labels();
    if ctx.mode == Mode::Miri {
        // dedicated small workload for the UB interpreter: labels, near misses, paddings, over-long inputs
        let mut r = ctx.rng(133);
        for i in 0..(if ctx.thorough() { 400 } else { 30 }) {
            let mut m = l.list[r.below(l.list.len())].clone();
            match i % 6 { 0 => {} 1 => { if !m.is_empty() { let p = r.below(m.len()); m[p] = *r.pick(&[0u8, 0x20, 0x41, 0x80, 0xFF, b'-']); } } 2 => { let p = r.below(m.len() + 1); m.insert(p, *r.pick(&[b' ', b'x', 0x0B, 0x00])); } 3 => { let mut v = vec![b' ', b'\t']; v.extend_from_slice(&m); v.push(b'\n'); m = v; } 4 => { m = m.to_ascii_uppercase(); } _ => { while m.len() < 18 + r.below(6) { m.push(b'a'); } } }
            check(&l, ev, &m, false);
        }
        return;
    }
    let th = ctx.thorough();
    let tiny = !ctx.native();
    let labs = l.list.clone();
    if ctx.want("edits") {
        for lab in labs.iter() {
            if !ev.mine() { continue; }
            check(&l, ev, lab, true); check(&l, ev, &lab.to_ascii_uppercase(), true);
            let vals: Vec<u8> = if tiny { vec![0x00, 0x09, 0x0B, 0x20, 0x2D, 0x41, 0x5F, 0x61, 0x80, 0xFF] } else { (0..=255u8).collect() };
            for i in 0..lab.len() { for &v in vals.iter() { let mut m = lab.clone(); m[i] = v; check(&l, ev, &m, true); } let mut m = lab.clone(); m.remove(i); check(&l, ev, &m, true); }
            for i in 0..=lab.len() { for &v in vals.iter() { let mut m = lab.clone(); m.insert(i, v); check(&l, ev, &m, true); } }
            // transpositions
            for i in 0..lab.len().saturating_sub(1) { let mut m = lab.clone(); m.swap(i, i + 1); check(&l, ev, &m, true); }
            // paddings with every whitespace-like byte combination up to 2 (thorough: 3) on each side
            let pads: Vec<Vec<u8>> = strings_over(&[0x09u8, 0x0A, 0x0C, 0x0D, 0x20, 0x0B, 0x00, 0x85, 0xA0], if th { 2 } else { 1 });
            for pre in pads.iter() { for post in pads.iter() { let mut m = pre.clone(); m.extend_from_slice(lab); m.extend_from_slice(post); check(&l, ev, &m, true); } }
            for pre in [&b"\t\n\x0c\r "[..], b"   ", b"\x20\x0b\x20"] { for post in [&b" \t\n\x0c\r"[..], b"\x0c\x0c\x0c", b"\x20\x85"] { let mut m = pre.to_vec(); m.extend_from_slice(lab); m.extend_from_slice(post); check(&l, ev, &m, true); } }
            // inner whitespace
            for i in 1..lab.len() { let mut m = lab.clone(); m.insert(i, b' '); check(&l, ev, &m, true); }
            // ... with every whitespace byte (and two look-alikes) and every upper/lower combination of the two sides
            // (the scanner treats lower-case, upper-case and whitespace bytes in separate arms)
            for i in 1..lab.len() { for &w in [0x09u8, 0x0A, 0x0C, 0x0D, 0x20, 0x0B, 0x00].iter() { for cs in 0..4 {
                if tiny && (i + cs) % 4 != 0 { continue; }
                let mut m: Vec<u8> = lab[..i].iter().map(|b| if cs & 1 != 0 { b.to_ascii_uppercase() } else { *b }).collect();
                m.push(w); if cs == 3 { m.push(w); }
                m.extend(lab[i..].iter().map(|b| if cs & 2 != 0 { b.to_ascii_uppercase() } else { *b }));
                check(&l, ev, &m, true);
            } } }
            // very long paddings
            if !tiny { let mut long = vec![b' '; 5000]; long.extend_from_slice(lab); long.extend(vec![b'\n'; 5000]); check(&l, ev, &long, true); }
            // case masks
            let n = lab.len(); let total: u64 = 1u64 << n.min(20); let cap: u64 = if tiny { 16 } else if th { 1 << 20 } else { 4096 };
            let step = (total / cap).max(1);
            let mut mask = 0u64; while mask < total { let m: Vec<u8> = lab.iter().enumerate().map(|(i, b)| if mask & (1 << i) != 0 { b.to_ascii_uppercase() } else { *b }).collect(); check(&l, ev, &m, true); mask += step; }
        }
        if !tiny { ev.exhaustive("228 labels x every single-byte substitution (256 values), insertion and deletion at every position"); }
    }
    if ctx.want("misc") && ev.ctx.shard == 0 {
        check(&l, ev, b"", true); check(&l, ev, b"   ", true);
        for n in [1usize, 18, 19, 20, 21, 22, 64, 10000] { check(&l, ev, &vec![b'a'; n], true); check(&l, ev, &vec![b' '; n], true); let mut v = vec![b' '; n]; v.extend_from_slice(b"utf-8"); check(&l, ev, &v, true); let mut v = b"utf-8".to_vec(); v.extend(vec![b' '; n]); check(&l, ev, &v, true); }
        // paddings beyond every fixed-width counter a scanner might use (u8 is covered by the 5000-byte paddings above)
        if !tiny {
            let sizes: Vec<usize> = if th { vec![65_530, 65_536, 70_000, 1 << 20, (1usize << 31) + 10, (1usize << 32) + 10] } else { vec![65_530, 65_536, 70_000, 1 << 20] };
            for n in sizes { for (lab, front) in [(&b"utf-8"[..], true), (b"cseucpkdfmtjapanese", false), (b"l1", true), (b"utf-9", false)] {
                if n > (1 << 30) && lab != b"utf-8" { continue; }
                let mut v: Vec<u8> = Vec::with_capacity(n + 32);
                if front { v.resize(n, b' '); v.extend_from_slice(lab); v.push(b'\n'); } else { v.push(b'\t'); v.extend_from_slice(lab); v.resize(n + lab.len() + 1, b' '); }
                check(&l, ev, &v, true);
                if n <= (1 << 20) { let half = n / 2; let mut w = vec![b' '; half]; w.extend_from_slice(lab); w.resize(n + lab.len(), b'\x0c'); check(&l, ev, &w, true); }
            } }
        }
        check(&l, ev, b"unicode-1-1-utf-8", true); check(&l, ev, b"unicode-1-1-utf-88", true); check(&l, ev, b" unicode-1-1-utf-8 ", true); check(&l, ev, b"x-unicode20utf8\x00", true);
        for e in ALL.iter() { ev.case(); ev.api_calls += 1; ev.count("label-reference.name()-resolves"); if Encoding::for_label(e.name().as_bytes()) != Some(*e) { ev.violation("label-reference", "name-not-a-label", format!("for_label({:?}) does not resolve to that encoding", e.name())); } if reference(&l, e.name().as_bytes()) != Some(static_name(e)) { ev.violation("label-reference", "name-not-a-label", format!("name {:?} is not a label of itself in the reference table", e.name())); } }
    }
    if ctx.want("random") {
        let mut r = ctx.rng(13);
        let alpha: Vec<u8> = b"abcdefghijklmnopqrstuvwxyzABCXYZ0123456789-_:. \t\n\x0c\r\x0b\x00\x80".to_vec();
        let n = ctx.budget(400_000, 40_000_000);
        for _ in 0..n {
            let s: Vec<u8> = if r.chance(2) { (0..r.below(25)).map(|_| *r.pick(&alpha)).collect() } else {
                // splice two labels / mutate a label twice
                let mut m = labs[r.below(labs.len())].clone();
                for _ in 0..1 + r.below(2) { if m.is_empty() { break; } let p = r.below(m.len()); match r.below(4) { 0 => m[p] = *r.pick(&alpha), 1 => { m.remove(p); } 2 => m.insert(p, *r.pick(&alpha)), _ => { let o = &labs[r.below(labs.len())]; m.truncate(p); m.extend_from_slice(&o[o.len().min(p)..]); } } }
                m };
            check(&l, ev, &s, false);
        }
    }
}
