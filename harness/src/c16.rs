// C16 mem classification and bidi checks equal their per-character definitions.
// Oracle: iterator definitions over an independent table of the documented right-to-left blocks.
use crate::drive::Driver;
use crate::ev::*;
use crate::util::*;
use encoding_rs::mem::*;

pub fn ref_bidi(c: u32) -> bool { (0x590..=0x8FF).contains(&c) || (0xFB1D..=0xFDFF).contains(&c) || (0xFE70..=0xFEFE).contains(&c) || (0x10800..=0x10FFF).contains(&c) || (0x1E800..=0x1EFFF).contains(&c) || c == 0x200F || c == 0x202B || c == 0x202E || c == 0x2067 }
pub fn ref_unit_bidi(u: u16) -> bool { let c = u as u32; (!(0xD800..=0xDFFF).contains(&c) && ref_bidi(c)) || matches!(u, 0xD802 | 0xD803 | 0xD83A | 0xD83B) }
fn l1b(latin1: bool, bidi: bool) -> Latin1Bidi { if latin1 { Latin1Bidi::Latin1 } else if bidi { Latin1Bidi::Bidi } else { Latin1Bidi::LeftToRight } }

/// A validator / classifier that panics does not return an answer at all: reported like a wrong answer.
pub fn check_bytes(drv: &mut Driver, ev: &mut Ev, data: &[u8], align: usize, enumerated: bool) {
    let r = std::panic::catch_unwind(std::panic::AssertUnwindSafe(|| check_bytes_inner(drv, ev, data, align, enumerated)));
    if let Err(e) = r { ev.violation("definition-diff", "panic(bytes)", format!("a function panicked: {} | {} bytes at alignment {}, input {}", panic_message(&e), data.len(), align, hexs(data))); }
}
fn check_bytes_inner(drv: &mut Driver, ev: &mut Ev, data: &[u8], align: usize, enumerated: bool) {
    let tr = ev.case();
    let b = drv.src8.carve_from(data, align);
    if data.iter().any(|x| *x >= 0x80) { if enumerated { ev.nontrivial_enum(); } else { ev.nontrivial_hash(H::new().b(data).u(align as u64).get()); } }
    let std_res = std::str::from_utf8(b);
    let vu = match &std_res { Ok(_) => b.len(), Err(e) => e.valid_up_to() };
    let vp = std::str::from_utf8(&b[..vu]).unwrap();
    let valid = std_res.is_ok();
    let e_ascii = b.iter().all(|x| *x < 0x80);
    let e_latin1 = valid && vp.chars().all(|c| (c as u32) < 0x100);
    // is_utf8_bidi: true exactly when some scalar is RTL, and also for any invalid UTF-8
    let e_bidi = !valid || vp.chars().any(|c| ref_bidi(c as u32));
    let desc = |api: &str, got: String, exp: String| format!("{}({} bytes at alignment {}) = {}, definition gives {} | input {}", api, data.len(), align, got, exp, hexs(data));
    ev.api_calls += 4; ev.count("definition-diff.byte-buffers");
    if tr { println!("TRACE bytes {} valid={} latin1={} bidi={}", hexs(data), valid, e_latin1, e_bidi); }
    let g = is_ascii(b); if g != e_ascii { ev.violation("definition-diff", "is_ascii", desc("is_ascii", g.to_string(), e_ascii.to_string())); }
    let g = is_utf8_latin1(b); if g != e_latin1 { ev.violation("definition-diff", "is_utf8_latin1", desc("is_utf8_latin1", g.to_string(), e_latin1.to_string())); }
    let g = is_utf8_bidi(b); if g != e_bidi { ev.violation("definition-diff", if valid { "is_utf8_bidi(valid)" } else { "is_utf8_bidi(invalid)" }, desc("is_utf8_bidi", g.to_string(), e_bidi.to_string())); }
    let g = check_utf8_for_latin1_and_bidi(b); let e = l1b(e_latin1, e_bidi); if g != e { ev.violation("definition-diff", "check_utf8_for_latin1_and_bidi", desc("check_utf8_for_latin1_and_bidi", format!("{:?}", g), format!("{:?}", e))); }
    if let Ok(s) = std_res {
        ev.api_calls += 3;
        let g = is_str_latin1(s); if g != e_latin1 { ev.violation("definition-diff", "is_str_latin1", desc("is_str_latin1", g.to_string(), e_latin1.to_string())); }
        let g = is_str_bidi(s); if g != e_bidi { ev.violation("definition-diff", "is_str_bidi", desc("is_str_bidi", g.to_string(), e_bidi.to_string())); }
        let g = check_str_for_latin1_and_bidi(s); let e = l1b(e_latin1, e_bidi); if g != e { ev.violation("definition-diff", "check_str_for_latin1_and_bidi", desc("check_str_for_latin1_and_bidi", format!("{:?}", g), format!("{:?}", e))); }
        let u: Vec<u16> = s.encode_utf16().collect();
        check_units(drv, ev, &u, align & !1, enumerated, false);
    }
    ev.state(H::new().u(valid as u64).u(e_latin1 as u64).u(e_bidi as u64).u((data.len() >= 16) as u64).get(), || format!("valid={} latin1={} bidi={} len>=16:{}", valid, e_latin1, e_bidi, data.len() >= 16));
    ev.sample(|| format!("bytes {} -> valid={} latin1={} bidi={}", hexs(data), valid, e_latin1, e_bidi));
}
pub fn check_units(drv: &mut Driver, ev: &mut Ev, data: &[u16], align: usize, enumerated: bool, count_case: bool) {
    let r = std::panic::catch_unwind(std::panic::AssertUnwindSafe(|| check_units_inner(drv, ev, data, align, enumerated, count_case)));
    if let Err(e) = r { ev.violation("definition-diff", "panic(units)", format!("a function panicked: {} | {} units at alignment {}, input [{}]", panic_message(&e), data.len(), align, hex16(&data[..data.len().min(80)]))); }
}
fn check_units_inner(drv: &mut Driver, ev: &mut Ev, data: &[u16], align: usize, enumerated: bool, count_case: bool) {
    if count_case { ev.case(); if data.iter().any(|x| *x >= 0x80) { if enumerated { ev.nontrivial_enum(); } else { ev.nontrivial_hash(H::new().u16s(data).u(align as u64).get()); } } }
    let u = drv.src16.carve_from(data, align);
    let e_basic = u.iter().all(|x| *x < 0x80);
    let e_latin1 = u.iter().all(|x| *x < 0x100);
    let e_bidi = u.iter().any(|x| ref_unit_bidi(*x));
    ev.api_calls += 4; ev.count("definition-diff.utf16-buffers");
    let desc = |api: &str, got: String, exp: String| format!("{}({} units at alignment {}) = {}, definition gives {} | input [{}]", api, data.len(), align, got, exp, hex16(&data[..data.len().min(80)]));
    let g = is_basic_latin(u); if g != e_basic { ev.violation("definition-diff", "is_basic_latin", desc("is_basic_latin", g.to_string(), e_basic.to_string())); }
    let g = is_utf16_latin1(u); if g != e_latin1 { ev.violation("definition-diff", "is_utf16_latin1", desc("is_utf16_latin1", g.to_string(), e_latin1.to_string())); }
    let g = is_utf16_bidi(u); if g != e_bidi { ev.violation("definition-diff", "is_utf16_bidi", desc("is_utf16_bidi", g.to_string(), e_bidi.to_string())); }
    let g = check_utf16_for_latin1_and_bidi(u); let e = l1b(e_latin1, e_bidi); if g != e { ev.violation("definition-diff", "check_utf16_for_latin1_and_bidi", desc("check_utf16_for_latin1_and_bidi", format!("{:?}", g), format!("{:?}", e))); }
}

/// both neighbours of every range boundary + one representative for every UTF-8 (lead, second byte) pair
pub fn interesting() -> Vec<u32> {
    let mut v: Vec<u32> = vec![];
    for b in [0x7Fu32, 0x80, 0xFF, 0x100, 0x58F, 0x590, 0x8FF, 0x900, 0x7FF, 0x800, 0x200E, 0x200F, 0x2010, 0x202A, 0x202B, 0x202C, 0x202D, 0x202E, 0x202F, 0x2066, 0x2067, 0x2068, 0xD7FF, 0xE000, 0xFB1C, 0xFB1D, 0xFB1E, 0xFDFF, 0xFE00, 0xFE6F, 0xFE70, 0xFEFE, 0xFEFF, 0xFFFD, 0xFFFF, 0x10000, 0x107FF, 0x10800, 0x10FFF, 0x11000, 0x1E7FF, 0x1E800, 0x1EFFF, 0x1F000, 0x1F4A9, 0x10FFFF, 0x41, 0xE9, 0x4E00, 0x3042, 0x0] { v.push(b); }
    // every (lead, second byte) pair: step through code points so that each 64-code-point block is hit once (BMP), each 4096 block (astral)
    let mut c = 0x80u32; while c < 0x10000 { if !(0xD800..0xE000).contains(&c) { v.push(c + (c >> 6) % 64); } c += 64; }
    let mut c = 0x10000u32; while c < 0x110000 { v.push(c + (c >> 12) % 4096); c += 4096; }
    v.retain(|c| char::from_u32(*c).is_some()); v.sort(); v.dedup(); v
}

pub fn run(ctx: &Ctx, ev: &mut Ev) {
    let mut drv = Driver::new();
    let th = ctx.thorough();
    let tiny = !ctx.native();
    // (a) every scalar / code unit alone (exhaustive)
    if ctx.want("alone") && !tiny {
        for block in 0..0x1100u32 {
            if !ev.mine() { continue; }
            for cp in (block << 8)..(block << 8) + 0x100 {
                if let Some(ch) = char::from_u32(cp) {
                    ev.case(); ev.api_calls += 1; ev.count("definition-diff.is_char_bidi");
                    if ref_bidi(cp) { ev.nontrivial_enum(); }
                    if is_char_bidi(ch) != ref_bidi(cp) { ev.violation("definition-diff", "is_char_bidi", format!("is_char_bidi(U+{:04X}) = {}, documented block list gives {}", cp, is_char_bidi(ch), ref_bidi(cp))); }
                    let mut bb = [0u8; 4]; let s = ch.encode_utf8(&mut bb);
                    check_bytes(&mut drv, ev, s.as_bytes(), (cp % 16) as usize, true);
                }
                if cp < 0x10000 { let u = cp as u16; ev.case(); ev.api_calls += 1; ev.count("definition-diff.is_utf16_code_unit_bidi"); if is_utf16_code_unit_bidi(u) != ref_unit_bidi(u) { ev.violation("definition-diff", "is_utf16_code_unit_bidi", format!("is_utf16_code_unit_bidi({:04X}) = {}, documented list gives {}", u, is_utf16_code_unit_bidi(u), ref_unit_bidi(u))); } check_units(&mut drv, ev, &[u], 0, true, true); }
            }
        }
        ev.exhaustive("every scalar value and every UTF-16 code unit alone");
    }
    // (b) interesting scalars planted at every position of buffers of every length over three fillers
    if ctx.want("planted") {
        let ints = interesting();
        let maxlen = if tiny { 20 } else { 64 };
        for len in 0..=maxlen {
            if !ev.mine() { continue; }
            for (fi, filler) in ['a', '\u{E9}', '\u{4E00}'].iter().enumerate() {
                for pos in 0..=len.min(48) {
                    if tiny && pos % 5 != 0 { continue; }
                    for (k, c) in ints.iter().enumerate() {
                        if !th && (k + pos + len) % (if tiny { 97 } else { 6 }) != 0 { continue; }
                        let mut s = String::new(); for i in 0..len { if i == pos { s.push(char::from_u32(*c).unwrap()); } else { s.push(*filler); } }
                        if pos == len { s.push(char::from_u32(*c).unwrap()); }
                        check_bytes(&mut drv, ev, s.as_bytes(), (pos + k + fi) % 16, true);
                    }
                }
            }
        }
    }
    // (b2) invalid UTF-8, systematically: every (non-ASCII byte, any byte) pair and every defect class of C14, after prefixes
    // and before suffixes that put it into the stride loops and the tails, over ASCII / Latin1 / non-Latin1 / RTL context
    if ctx.want("invalid") {
        let prefixes: Vec<Vec<u8>> = { let mut v: Vec<Vec<u8>> = vec![vec![], b"a".to_vec(), "\u{E9}".as_bytes().to_vec(), "\u{4E00}".as_bytes().to_vec(), "\u{5D0}".as_bytes().to_vec()]; for n in [15usize, 16, 17, 31] { v.push(vec![b'a'; n]); let mut w = vec![b'a'; n - 2]; w.extend_from_slice("\u{E9}".as_bytes()); v.push(w); } v };
        let suffixes: [&[u8]; 4] = [b"", b"a", "\u{E9}".as_bytes(), b"aaaaaaaaaaaaaaaaaaaa"];
        for a in 0x80..=0xFFu32 {
            if !ev.mine() { continue; }
            for b in 0..=0xFFu32 {
                if tiny && (a + b) % 61 != 0 { continue; }
                for (pi, pre) in prefixes.iter().enumerate() { for (si, suf) in suffixes.iter().enumerate() {
                    if !th && (pi + si + (a + b) as usize) % 4 != 0 && !(pi < 3 && si < 2) { continue; }
                    let mut v = pre.clone(); v.push(a as u8); v.push(b as u8); v.extend_from_slice(suf);
                    check_bytes(&mut drv, ev, &v, (a as usize + pi) % 16, true);
                } }
            }
        }
        for (di, d) in crate::c14::DEFECTS.iter().enumerate() {
            if !ev.mine() { continue; }
            for pre in prefixes.iter() { for suf in suffixes.iter() { let mut v = pre.clone(); v.extend_from_slice(d); v.extend_from_slice(suf); check_bytes(&mut drv, ev, &v, di % 16, true); } }
        }
    }
    // (b3) mixed contexts: every sequence of <= 4 (thorough 5) tokens over one token per arm of the scanners - ASCII letter,
    // space, punctuation, LTR and RTL characters of every UTF-8 length and lead-byte arm, and every class of invalid bytes -
    // bare and after a 13-byte ASCII pad (so that the sequence meets the stride loop, the scalar loop and the short tail)
    if ctx.want("tokens") {
        let toks: Vec<&[u8]> = vec![b"a", b" ", b",", "\u{E9}".as_bytes(), "\u{5D0}".as_bytes(), "\u{5BE}".as_bytes(), "\u{627}".as_bytes(), "\u{7FF}".as_bytes(), "\u{4E00}".as_bytes(), "\u{800}".as_bytes(), "\u{200F}".as_bytes(),
            "\u{202A}".as_bytes(), "\u{FB1D}".as_bytes(), "\u{FE70}".as_bytes(), "\u{FEFF}".as_bytes(), "\u{1F4A9}".as_bytes(), "\u{10800}".as_bytes(), "\u{1E900}".as_bytes(), b"\xFF", b"\x80", b"\xC3", b"\xD7", b"\xE0\x80", b"\xED\xA0\x80", b"\xE2\x80", b"\xF0\x90\xA0"];
        let idx: Vec<usize> = (0..toks.len()).collect();
        let maxl = if tiny { 2 } else if th { 5 } else { 4 };
        for seq in strings_over(&idx, maxl).iter() {
            if !ev.mine() { continue; }
            if seq.len() == 5 && (seq[0] * 7 + seq[1] * 5 + seq[2] * 3 + seq[3] + seq[4]) % 4 != (ctx.seed as usize) % 4 { continue; }
            let mut v: Vec<u8> = vec![]; for t in seq { v.extend_from_slice(toks[*t]); }
            let h = seq.iter().fold(7usize, |a, b| a * 31 + b);
            check_bytes(&mut drv, ev, &v, h % 16, true);
            if seq.len() <= 3 || h % 4 == 0 { let mut w = vec![b'a'; 13]; w.extend_from_slice(&v); check_bytes(&mut drv, ev, &w, (h / 16) % 16, true); }
        }
        let units: [&[u16]; 16] = [&[0x61], &[0x20], &[0xE9], &[0x5D0], &[0x8FF], &[0x900], &[0x200F], &[0xFB1D], &[0xFE70], &[0x4E00], &[0xD802, 0xDC00], &[0xD83D, 0xDCA9], &[0xD83A, 0xDD00], &[0xD802], &[0xDC00], &[0xD800]];
        let uidx: Vec<usize> = (0..units.len()).collect();
        for seq in strings_over(&uidx, if tiny { 2 } else { 4 }).iter() {
            if !ev.mine() { continue; }
            let mut v: Vec<u16> = vec![]; for t in seq { v.extend_from_slice(units[*t]); }
            let h = seq.iter().fold(7usize, |a, b| a * 31 + b);
            check_units(&mut drv, ev, &v, (h % 8) * 2, true, true);
            if seq.len() <= 3 || h % 4 == 0 { let mut w = vec![0x61u16; 13]; w.extend_from_slice(&v); check_units(&mut drv, ev, &w, (h / 8 % 8) * 2, true, true); }
        }
    }
    // (c) seeded random text with injected invalid UTF-8 at every stride phase; unpaired surrogates in UTF-16
    if ctx.want("random") {
        let ints = interesting();
        let mut r = ctx.rng(16);
        let n = ctx.budget(300_000, 60_000_000);
        for _ in 0..n {
            let len = r.below(if tiny { 30 } else { 90 }); let filler = [0x61u32, 0xE9, 0x4E00, 0x5D0][r.below(4)];
            let mut s = String::new();
            for _ in 0..len { let c = if r.chance(8) { ints[r.below(ints.len())] } else if r.chance(5) { 0x61 } else if filler == 0x5D0 && !r.chance(20) { 0x61 } else { filler }; s.push(char::from_u32(c).unwrap()); }
            let mut bytes = s.into_bytes();
            if r.chance(2) && !bytes.is_empty() { for _ in 0..1 + r.below(2) { let p = r.below(bytes.len()); match r.below(4) { 0 => bytes[p] = [0x80, 0xBF, 0xC0, 0xC1, 0xF5, 0xFF, 0xED, 0xE0, 0xF0, 0xF4, 0xC2, 0xD7, 0xD6, 0xEF][r.below(14)], 1 => bytes.truncate(p.max(1)), 2 => bytes.insert(p, [0xA0, 0x9F, 0x90, 0x8F, 0xED, 0xF4, 0xD7][r.below(7)]), _ => { bytes.remove(p); } } if bytes.is_empty() { break; } } }
            check_bytes(&mut drv, ev, &bytes, r.below(16), false);
            if r.chance(3) { let mut u = crate::memfn::gen_src(&mut r, crate::memfn::SrcKind::Units, 3).units; for _ in 0..r.below(3) { if u.is_empty() { break; } let p = r.below(u.len()); u[p] = [0x5D0u16, 0xD802, 0xD803, 0xD83A, 0xD83B, 0xDC02, 0x200F, 0xFB1D, 0xFE70, 0x08FF, 0x0900, 0xD801, 0xD804][r.below(13)]; } check_units(&mut drv, ev, &u, r.below(8) * 2, false, true); }
        }
    }
}
