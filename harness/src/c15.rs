// C15 mem conversions are exact and respect their partial-output contracts.
// Oracle: std-library conversions; greedy whole-character reference for *_partial; full-destination comparison.
use crate::drive::Driver;
use crate::ev::*;
use crate::memfn::*;
use crate::util::*;

pub fn check(drv: &mut Driver, ev: &mut Ev, f: MemFn, src: &Src, dst_len: usize, fill: u8, sa: usize, da: usize, filler: usize, enumerated: bool) {
    let tr = ev.case();
    ev.api_calls += 1;
    let exp = expect(f, src, dst_len);
    if exp.panics { ev.count("skipped.documented-precondition-panic"); return; }
    let out = drv.run_mem(f, src, dst_len, fill, sa, da, filler);
    if tr { println!("TRACE {} {} dst_len={} fill={:02x} align={}/{} -> ret={:?} dst8={} dst16=[{}] panic={:?} | reference ret={:?} prefix8={} prefix16=[{}] beyond={:?}", f.name(), src.describe(f), dst_len, fill, sa, da, out.ret, hexs(&out.dst8), hex16(&out.dst16[..out.dst16.len().min(64)]), out.panic, exp.ret, hexs(&exp.prefix8), hex16(&exp.prefix16), exp.beyond); }
    ev.count("std-diff.calls");
    let nontrivial = src.bytes.iter().any(|b| *b >= 0x80) || src.units.iter().any(|u| *u >= 0x80);
    if nontrivial { if enumerated { ev.nontrivial_enum(); } else { ev.nontrivial_hash(H::new().s(f.name()).b(&src.bytes).u16s(&src.units).u(dst_len as u64).get()); } }
    if let Some((kind, detail)) = diff(f, &out, &exp, dst_len, fill) {
        // str validity is C05's clause; everything else is C15's
        if kind == "invalid-str" { ev.count("foreign.invalid-str(C05)"); } else {
            ev.violation("std-diff", &format!("{}:{}", f.name(), kind), format!("{} | {} dst_len={} fill={:02x} align={}/{}", detail, src.describe(f), dst_len, fill, sa, da));
        }
    }
    ev.state(H::new().s(f.name()).u((out.ret.0 >= 0 && (out.ret.0 as usize) < src.len(f)) as u64).get(), || format!("{} partial-read={}", f.name(), out.ret.0 >= 0 && (out.ret.0 as usize) < src.len(f)));
    ev.sample(|| format!("{} {} dst_len={} -> {:?}", f.name(), src.describe(f), dst_len, out.ret));
}

pub fn valid_for(f: MemFn, src: &Src) -> bool {
    match f.src_kind() { SrcKind::Str | SrcKind::Latin1Str => std::str::from_utf8(&src.bytes).is_ok(), _ => true }
}

pub fn run(ctx: &Ctx, ev: &mut Ev) {
    let mut drv = Driver::new();
    if ctx.mode == Mode::Miri {
        // dedicated small workload for the UB interpreter
        let mut r = ctx.rng(155);
        for i in 0..(if ctx.thorough() { 500 } else { 40 }) {
            let f = ALL_MEM[(i + ctx.shard * 3) % ALL_MEM.len()];
            let src = gen_src(&mut r, f.src_kind(), 2);
            let src = Src { bytes: src.bytes[..src.bytes.len().min(70)].to_vec(), units: src.units[..src.units.len().min(70)].to_vec() };
            let src = if matches!(f.src_kind(), SrcKind::Str | SrcKind::Latin1Str) { let mut b = src.bytes.clone(); while std::str::from_utf8(&b).is_err() { b.pop(); } Src { bytes: b, units: vec![] } } else { src };
            let dl = gen_dst_len(&mut r, f, src.len(f));
            check(&mut drv, ev, f, &src, dl, [0u8, 0xFF, 0xA5][r.below(3)], r.below(16), r.below(16), r.below(16), false);
        }
        return;
    }
    let th = ctx.thorough();
    let tiny = ctx.mode == Mode::Miri || ctx.mode == Mode::Vg;
    let fills = [0x00u8, 0xFF, 0xA5];
    // (a) bounded-exhaustive short sources x every destination length
    if ctx.want("enum") && !tiny {
        let l16 = if th { 5 } else { 4 };
        for u in strings_over(&UNITS_SMALL, l16).iter() {
            if !ev.mine() { continue; }
            let src = Src { bytes: vec![], units: u.clone() };
            for f in [Utf16ToUtf8Partial, Utf16ToStrPartial, Utf16ToUtf8, Utf16ToStr, EnsureUtf16Validity, CopyBasicLatinToAscii] {
                let suf = f.sufficient(u.len());
                let lens: Vec<usize> = if f.partial() { (0..=suf + 1).collect() } else { vec![suf, suf + 1] };
                for dl in lens { check(&mut drv, ev, f, &src, dl, fills[dl % 3], dl % 16, (dl / 3) % 16, dl % 16, true); }
            }
        }
        for b in strings_over(&[0x00u8, 0x41, 0x7F, 0x80, 0xE9, 0xFF], if th { 6 } else { 5 }).iter() {
            if !ev.mine() { continue; }
            let src = Src { bytes: b.clone(), units: vec![] };
            for f in [Latin1ToUtf8Partial, Latin1ToStrPartial, Latin1ToUtf8, Latin1ToStr, Latin1ToUtf16, CopyAsciiToAscii, CopyAsciiToBasicLatin, DecodeLatin1] {
                let suf = f.sufficient(b.len());
                let lens: Vec<usize> = if f.partial() { (0..=suf + 1).collect() } else { vec![suf, suf + 2] };
                for dl in lens { check(&mut drv, ev, f, &src, dl, fills[dl % 3], dl % 16, (dl / 3) % 16, dl % 16, true); }
            }
        }
        // UTF-8 token sequences (valid characters of every length + every class of ill-formed subsequence)
        let mut toks: Vec<Vec<u8>> = TEXT_CHARS.iter().map(|c| c.to_string().into_bytes()).collect();
        for b in BAD_UTF8.iter() { toks.push(b.to_vec()); }
        let idx: Vec<usize> = (0..toks.len()).collect();
        for seq in strings_over(&idx, if th { 4 } else { 3 }).iter() {
            if !ev.mine() { continue; }
            if seq.len() == 4 && (seq[0] * 7 + seq[1] * 5 + seq[2] * 3 + seq[3]) % 4 != (ctx.seed as usize) % 4 { continue; }
            let mut bytes = vec![]; for t in seq { bytes.extend_from_slice(&toks[*t]); }
            let src = Src { bytes, units: vec![] };
            for f in [Utf8ToUtf16, Utf8ToUtf16NoRepl, StrToUtf16, Utf8ToLatin1Lossy, EncodeLatin1Lossy] {
                if !valid_for(f, &src) { continue; }
                if matches!(f.src_kind(), SrcKind::Latin1Str) && std::str::from_utf8(&src.bytes).unwrap().chars().any(|c| c as u32 > 0xFF) { continue; }
                let suf = f.sufficient(src.bytes.len());
                for dl in [suf, suf + 1] { check(&mut drv, ev, f, &src, dl, fills[dl % 3], dl % 16, (dl / 3) % 16, 0, true); }
            }
        }
    }
    // (b) one interesting unit at every position of ASCII runs of every length 0..160 (stride phases, tails)
    if ctx.want("sweep") && !tiny {
        let maxlen = if th { 160 } else { 100 };
        for len in 0..=maxlen {
            if !ev.mine() { continue; }
            for pos in 0..len.max(1) {
                if !th && len > 40 && (pos * 7 + len) % 3 != 0 { continue; }
                for (k, u) in [0x00E9u16, 0x4E00, 0xD83D, 0xDC00].iter().enumerate() {
                    let mut units: Vec<u16> = (0..len).map(|i| 0x61 + (i % 26) as u16).collect();
                    if len > 0 { units[pos] = *u; if *u == 0xD83D && pos + 1 < len && (pos + len) % 2 == 0 { units[pos + 1] = 0xDCA9; if pos + 2 < len && (pos + len) % 4 == 0 { units[pos + 2] = [0xDC00u16, 0xD800][(pos / 2) % 2]; } } }
                    let src = Src { bytes: vec![], units };
                    let need: usize = String::from_utf16_lossy(&src.units).len();
                    for f in [Utf16ToUtf8Partial, Utf16ToStrPartial, Utf16ToUtf8, Utf16ToStr, CopyBasicLatinToAscii, EnsureUtf16Validity] {
                        let dls: Vec<usize> = if f.partial() { vec![need, need.saturating_sub(1), need.saturating_sub(2), need.saturating_sub(3), pos, pos + 1, pos + 2, len] } else { vec![f.sufficient(len)] };
                        for dl in dls { check(&mut drv, ev, f, &src, dl, fills[(dl + k) % 3], (pos + k) % 16, (len + k) % 16, (pos + len) % 16, true); }
                    }
                    let bytes: Vec<u8> = (0..len).map(|i| if len > 0 && i == pos { [0xE9u8, 0x80, 0xFF, 0xA0][k] } else { 0x61 + (i % 26) as u8 }).collect();
                    let srcb = Src { bytes, units: vec![] };
                    let need8 = len + if len > 0 { 1 } else { 0 };
                    for f in [Latin1ToUtf8Partial, Latin1ToStrPartial, Latin1ToUtf8, Latin1ToStr, Latin1ToUtf16, CopyAsciiToAscii, CopyAsciiToBasicLatin, DecodeLatin1, Utf8ToUtf16, Utf8ToUtf16NoRepl] {
                        let dls: Vec<usize> = if f.partial() { vec![need8, need8.saturating_sub(1), need8.saturating_sub(2), pos, pos + 1, pos + 2] } else { vec![f.sufficient(len)] };
                        for dl in dls { check(&mut drv, ev, f, &srcb, dl, fills[(dl + k) % 3], (pos + k) % 16, (len + k) % 16, (pos + len) % 16, true); }
                    }
                    // valid UTF-8 text with one multi-byte character at `pos`
                    let ch = ['\u{E9}', '\u{4E00}', '\u{1F4A9}', '\u{FF}'][k];
                    let mut t = String::new(); for i in 0..len { if i == pos { t.push(ch); } else { t.push((0x61 + (i % 26) as u8) as char); } }
                    let srct = Src { bytes: t.into_bytes(), units: vec![] };
                    for f in [StrToUtf16, Utf8ToUtf16, Utf8ToUtf16NoRepl] { let dl = f.sufficient(srct.bytes.len()); check(&mut drv, ev, f, &srct, dl, fills[k % 3], (pos + k) % 16, (len + k) % 16, 0, true); }
                    if (ch as u32) < 0x100 { for f in [Utf8ToLatin1Lossy, EncodeLatin1Lossy] { let dl = f.sufficient(srct.bytes.len()); check(&mut drv, ev, f, &srct, dl, fills[k % 3], (pos + k) % 16, (len + k) % 16, 0, true); } }
                    let l1: Vec<u16> = (0..len).map(|i| if i == pos { [0xE9u16, 0x80, 0xFF, 0x00][k] } else { 0x61 + (i % 26) as u16 }).collect();
                    check(&mut drv, ev, Utf16ToLatin1Lossy, &Src { bytes: vec![], units: l1 }, len, fills[k % 3], (pos + k) % 16, (len + k) % 16, 0, true);
                }
            }
        }
    }
    // (a2) every (lead byte, second byte) cell of the UTF-8 converters, completed by continuation bytes, bare and after a pad
    if ctx.want("cells") && !tiny {
        for a in 0xC0..=0xFFu32 {
            if !ev.mine() { continue; }
            for b in 0..=0xFFu32 { for (ti, tail) in [&[][..], &[0x80u8][..], &[0xBF], &[0x80, 0x80], &[0xBF, 0xBF], &[0x80, 0x61]].iter().enumerate() { for pad in [0usize, 13] {
                let mut v = vec![b'a'; pad]; v.push(a as u8); v.push(b as u8); v.extend_from_slice(tail); v.push(b'z');
                let src = Src { bytes: v, units: vec![] };
                for f in [Utf8ToUtf16, Utf8ToUtf16NoRepl, Utf8ToLatin1Lossy] {
                    if !valid_for(f, &src) { continue; }
                    if matches!(f.src_kind(), SrcKind::Latin1Str) && std::str::from_utf8(&src.bytes).unwrap().chars().any(|c| c as u32 > 0xFF) { continue; }
                    let dl = f.sufficient(src.bytes.len());
                    check(&mut drv, ev, f, &src, dl, fills[ti % 3], (a as usize + ti) % 16, (b as usize) % 16, 0, true);
                }
            } } }
        }
    }
    // (b2) huge sources: lengths on both sides of 2^16 (thorough: 2^17, 2^20) for every function, sufficient and (for the
    // partial functions) half-size destinations
    if ctx.want("huge") && !tiny {
        let mut r = ctx.fixed_rng(151);
        let sizes: Vec<usize> = if th { vec![65_535, 65_536, 65_537, 70_001, 131_073, (1 << 20) + 1] } else { vec![65_535, 65_536, 65_537, 70_001] };
        for &n in sizes.iter() { for &f in ALL_MEM.iter() {
            if !ev.mine() { continue; }
            let mut src = Src::default();
            while src.len(f) < n { let seg = gen_src(&mut r, f.src_kind(), 60); src.bytes.extend_from_slice(&seg.bytes); src.units.extend_from_slice(&seg.units); if seg.bytes.is_empty() && seg.units.is_empty() { src.bytes.push(b'a'); src.units.push(0x61); } }
            src.bytes.truncate(if src.units.is_empty() || !src.bytes.is_empty() { n } else { 0 }); src.units.truncate(n);
            if matches!(f.src_kind(), SrcKind::Str | SrcKind::Latin1Str) { while std::str::from_utf8(&src.bytes).is_err() { src.bytes.pop(); } }
            let len = src.len(f);
            let suf = f.sufficient(len);
            check(&mut drv, ev, f, &src, suf, 0xA5, n % 16, (n / 3) % 16, 0, true);
            if f.partial() { check(&mut drv, ev, f, &src, suf / 2, 0x00, 3, 5, 0, true); check(&mut drv, ev, f, &src, 65_536, 0xFF, 1, 1, 0, true); }
        } }
    }
    // (c) seeded random sources (incl. a few of 4 KiB), random destination lengths
    if ctx.want("random") {
        let mut r = ctx.rng(15);
        let n = ctx.budget(600_000, 20_000_000);
        for i in 0..n {
            let f = ALL_MEM[r.below(ALL_MEM.len())];
            let src = gen_src(&mut r, f.src_kind(), if i % 200 == 0 { 60 } else { 4 });
            let dl = gen_dst_len(&mut r, f, src.len(f));
            check(&mut drv, ev, f, &src, dl, fills[r.below(3)], r.below(16), r.below(16), r.below(16), false);
        }
    }
}
