// C19 latin1_byte_compatible_up_to is exact and does not disturb the decoder.
// Oracle (execution based - the converter state is never inferred from consumed bytes): a twin decoder
// replays the identical call sequence. "owed" = the twin, finished at once, delivers output or an error;
// "bom-waiting" = the mode looks for a BOM, the consumed bytes are a proper prefix of one and nothing was delivered.
use crate::alpha::*;
use crate::drive::*;
use crate::ev::*;
use crate::model::{Item, M};
use crate::util::*;
use encoding_rs::*;
use std::panic::{catch_unwind, AssertUnwindSafe};

fn items_so_far(items: &mut Vec<Item>, dst: &[u16], res: &DecoderResult, consumed: usize) {
    for c in char::decode_utf16(dst.iter().copied()) { items.push(Item::C(c.map(|x| x as u32).unwrap_or(0xDEAD))); }
    if let DecoderResult::Malformed(l, a) = res { let end = consumed.saturating_sub(*a as usize); items.push(Item::E(end.saturating_sub(*l as usize), end)); }
}

pub fn probe(ev: &mut Ev, enc: &'static Encoding, bom: Bom, prefix: &[u8], cuts: &[usize], buf: &[u8], cont: &[u8], enumerated: bool) {
    let tr = ev.case();
    let r = catch_unwind(AssertUnwindSafe(|| -> Result<(String, String, u64), (String, String)> {
        let mut ncalls = 0u64;
        // bring the decoder into its state: feed chunk by chunk, one call per chunk (unconsumed input is part of the next call)
        let mut calls: Vec<(usize, usize)> = vec![];
        let mut d = new_decoder(enc, bom);
        let mut delivered: Vec<Item> = vec![]; let mut consumed = 0usize; let mut pos = 0usize; let mut dst = vec![0u16; 64];
        let mut ends: Vec<usize> = cuts.to_vec(); ends.push(prefix.len());
        for e in ends { if pos >= e { continue; } calls.push((pos, e)); ncalls += 1; let (res, read, written) = d.decode_to_utf16_without_replacement(&prefix[pos..e], &mut dst, false); pos += read; consumed += read; items_so_far(&mut delivered, &dst[..written], &res, consumed); }
        let replay = |n: &mut u64| { let mut t = new_decoder(enc, bom); let mut dst = vec![0u16; 64]; for (a, b) in calls.iter() { *n += 1; let _ = t.decode_to_utf16_without_replacement(&prefix[*a..*b], &mut dst, false); } t };
        let fed = &prefix[..consumed];
        let sniff_prefixes: &[&[u8]] = match (bom, enc.name()) { (Bom::Sniff, _) => &[b"", b"\xEF", b"\xEF\xBB", b"\xFE", b"\xFF"], (Bom::Remove, "UTF-8") => &[b"", b"\xEF", b"\xEF\xBB"], (Bom::Remove, "UTF-16BE") => &[b"", b"\xFE"], (Bom::Remove, "UTF-16LE") => &[b"", b"\xFF"], _ => &[] };
        let bom_waiting = sniff_prefixes.iter().any(|p| *p == fed) && delivered.is_empty();
        let (eff, _) = model_decode_stream(enc, bom, fed);
        let off = if eff != enc || bom != Bom::Off { match Encoding::for_bom(fed) { Some((e, o)) if (bom == Bom::Sniff) || (bom == Bom::Remove && e == enc) => o, _ => 0 } } else { 0 };
        let owed = { let mut t = replay(&mut ncalls); let mut o = vec![0u16; 16]; ncalls += 1; let (res, _r, w) = t.decode_to_utf16_without_replacement(b"", &mut o, true); w > 0 || res != DecoderResult::InputEmpty };
        let name = eff.name();
        let (ascii_state, oflag) = if name == "ISO-2022-JP" { M.dec_2022_final(&fed[off.min(fed.len())..]) } else { (true, false) };
        let never = matches!(name, "UTF-16LE" | "UTF-16BE" | "replacement");
        let must_none = owed || bom_waiting || never || !ascii_state;
        let must_some = !must_none && !oflag;
        let lc = life_cycle(&d);
        ncalls += 1;
        let got = d.latin1_byte_compatible_up_to(buf);
        let class = if must_none { "must-be-None" } else if must_some { "must-be-Some" } else { "either" };
        let st = format!("{} {} state={} got={}", crate::c01::family(eff), class, lc, if got.is_some() { "Some" } else { "None" });
        let desc = format!("enc={} bom={:?} prefix={} (consumed {}, fed in calls {:?}) query buffer={} -> {:?} | owed={} bom-waiting={} ascii-state={} escape-flag={} life_cycle={}", enc.name(), bom, hex(prefix), consumed, calls, hexs(buf), got, owed, bom_waiting, ascii_state, oflag, lc);
        match got {
            None => if must_some { return Err(("None-but-decoder-is-neutral".into(), desc)); },
            Some(k) => {
                if must_none { return Err((format!("Some-but-{}", if owed { "mid-sequence" } else if bom_waiting { "waiting-for-BOM" } else if never { "never-compatible-encoding" } else { "non-ASCII-state" }), desc)); }
                if k > buf.len() { return Err(("n>len".into(), desc)); }
                let mut t = replay(&mut ncalls); let mut o = vec![0u16; k + 8]; ncalls += 1;
                let (res, read, written) = t.decode_to_utf16_without_replacement(&buf[..k], &mut o, false);
                let ok = res == DecoderResult::InputEmpty && read == k && written == k && o[..k].iter().zip(buf[..k].iter()).all(|(a, b)| *a == *b as u16);
                if !ok { return Err(("prefix-not-identity".into(), format!("{} | decoding the first {} bytes gives {:?} read={} written={} [{}]", desc, k, res, read, written, hex16(&o[..written.min(24)])))); }
                let pass = |b: u8| b < 0x80 && !(name == "ISO-2022-JP" && matches!(b, 0x0E | 0x0F | 0x1B));
                let run = buf.iter().take_while(|b| pass(**b)).count();
                if k < run { return Err(("stops-short-in-ascii".into(), format!("{} | the buffer starts with {} pass-through ASCII bytes", desc, run))); }
                if eff.is_single_byte() && name != "x-user-defined" && k < buf.len() { let one = M.decode(name, &buf[k..k + 1]); if one == vec![Item::C(buf[k] as u32)] { return Err(("single-byte-not-maximal".into(), format!("{} | byte {} ({:02x}) decodes to itself", desc, k, buf[k]))); } }
            }
        }
        // not disturbed: the queried decoder and a never-queried twin produce identical results for the same continuation
        let mut full_cont: Vec<u8> = prefix[pos..].to_vec(); full_cont.extend_from_slice(cont);
        let finish = |dec: &mut Decoder, mut items: Vec<Item>, mut c: usize, n: &mut u64| { let mut p = 0; let mut dst = vec![0u16; full_cont.len() * 2 + 16]; let mut g = 0; loop { g += 1; if g > 200 { items.push(Item::E(9999, 9999)); break; } *n += 1; let (res, read, written) = dec.decode_to_utf16_without_replacement(&full_cont[p..], &mut dst, true); p += read; c += read; items_so_far(&mut items, &dst[..written], &res, c); if res == DecoderResult::InputEmpty { break; } } items };
        let a = finish(&mut d, delivered.clone(), consumed, &mut ncalls);
        let mut t = replay(&mut ncalls); let b = finish(&mut t, delivered.clone(), consumed, &mut ncalls);
        if a != b { return Err(("disturbed".into(), format!("{} | continuation {} gives [{}] after the query but [{}] on a never-queried twin", desc, hex(&full_cont), fmt_items(&a), fmt_items(&b)))); }
        Ok((st, desc, ncalls))
    }));
    ev.count("latin1compat.probes");
    if !prefix.is_empty() || bom != Bom::Off { if enumerated { ev.nontrivial_enum(); } else { ev.nontrivial_hash(H::new().s(enc.name()).u(bom as u64).b(prefix).b(buf).u(cuts.len() as u64).get()); } }
    match r {
        Err(e) => ev.violation("latin1compat", &format!("{}:panic", crate::c01::family(enc)), format!("panic: {} | enc={} bom={:?} prefix={} buf={}", panic_message(&e), enc.name(), bom, hex(prefix), hexs(buf))),
        Ok(Err((kind, desc))) => { if tr { println!("TRACE {}", desc); } ev.violation("latin1compat", &format!("{}:{}", crate::c01::family(enc), kind), desc) }
        Ok(Ok((st, desc, n))) => { ev.api_calls += n; if tr { println!("TRACE {}", desc); } ev.state(H::new().s(&st).get(), || st.clone()); ev.sample(|| desc); }
    }
}

pub fn query_buffers(r: &mut Rng, enc: &'static Encoding, n: usize) -> Vec<Vec<u8>> {
    let alpha = byte_alpha(enc);
    let mut v: Vec<Vec<u8>> = vec![vec![], vec![0x30], vec![0x80], b"abc\xE9def".to_vec(), b"abc\xE9def\x80".to_vec(), vec![0x1B], vec![0x0E]];
    for _ in 0..n {
        let len = *r.pick(&[0usize, 1, 2, 5, 15, 16, 17, 31, 33, 40, 64, 65, 100]);
        let mut b: Vec<u8> = (0..len).map(|i| 0x30 + (i % 70) as u8).collect();
        if len > 0 && !r.chance(4) { let p = r.below(len); b[p] = *r.pick(&alpha); if r.chance(2) { let q = r.below(len); b[q] = *r.pick(&[0x80u8, 0xE9, 0xA0, 0xFF, 0x1B, 0x81]); } }
        v.push(b);
    }
    v
}

pub fn run(ctx: &Ctx, ev: &mut Ev) {
    let th = ctx.thorough();
    let tiny = !ctx.native();
    let mut r = ctx.rng(19);
    // (a) all prefixes <= P over the family alphabet x feeding schedules x BOM modes, all 40 encodings; query buffers of
    // length 0..100 with the first incompatible byte at sampled positions
    if ctx.want("enum") {
        for &enc in ALL.iter() {
            let fam = families().contains(&enc);
            let alpha = if th && fam { byte_alpha(enc) } else { byte_alpha_small(enc) };
            let pmax = if tiny { 1 } else if fam { if th { 4 } else { 3 } } else { 2 };
            let mut prefixes = strings_over(&alpha, pmax);
            for p in strings_over(&BOM_ALPHA, 3) { prefixes.push(p.clone()); let mut q = p.clone(); q.push(alpha[1]); prefixes.push(q); }
            if enc == ISO_2022_JP { for t in iso2022jp_tokens() { prefixes.push(t.to_vec()); for u in iso2022jp_tokens() { let mut v = t.to_vec(); v.extend_from_slice(u); prefixes.push(v); } } }
            if enc == GB18030 { for t in gb18030_tokens() { prefixes.push(t.to_vec()); let mut v = t.to_vec(); v.push(0x41); prefixes.push(v); } }
            for prefix in prefixes.iter() {
                if !ev.mine() { continue; }
                let bufs = query_buffers(&mut r, enc, if tiny { 1 } else { 3 });
                for &bom in BOMS.iter() {
                    let mut scheds: Vec<Vec<usize>> = vec![vec![], (1..prefix.len()).collect()];
                    if prefix.len() < 2 { scheds.truncate(1); }
                    if th && prefix.len() == 3 { scheds.push(vec![1]); scheds.push(vec![2]); }
                    for cuts in scheds.iter() { for buf in bufs.iter() { let cont: Vec<u8> = (0..r.below(4)).map(|_| *r.pick(&alpha)).collect(); probe(ev, enc, bom, prefix, cuts, buf, &cont, true); } }
                }
            }
        }
    }
    // (b) first incompatible byte at every position of buffers of every length 0..100, fresh and post-prefix decoders
    if ctx.want("positions") {
        for &enc in ALL.iter() {
            let alpha = byte_alpha(enc);
            for len in 0..=(if tiny { 20 } else { 100 }) {
                if !ev.mine() { continue; }
                for pos in 0..=len {
                    if !th && len > 34 && (pos + len) % 3 != 0 && pos + 2 < len { continue; }
                    if tiny && pos % 6 != 0 { continue; }
                    let mut b: Vec<u8> = (0..len).map(|i| 0x30 + (i % 70) as u8).collect();
                    if pos < len { b[pos] = *r.pick(&alpha); if b[pos] < 0x80 && !r.chance(3) { b[pos] = [0x80u8, 0xE9, 0xFF, 0xA0][pos % 4]; } }
                    let prefix: &[u8] = if (pos + len) % 4 == 0 { b"ab" } else { b"" };
                    probe(ev, enc, if prefix.is_empty() { Bom::Off } else { BOMS[(pos + len) % 3] }, prefix, &[], &b, &[], true);
                }
            }
        }
    }
    if ctx.want("random") {
        let n = ctx.budget(300_000, 40_000_000);
        for _ in 0..n {
            let enc = ALL[r.below(40)]; let alpha = byte_alpha(enc);
            let prefix: Vec<u8> = (0..r.below(6)).map(|_| if r.chance(4) { *r.pick(&HOSTILE) } else { *r.pick(&alpha) }).collect();
            let mut cuts: Vec<usize> = (0..r.below(3)).map(|_| r.below(prefix.len() + 1)).collect(); cuts.sort();
            let buf = query_buffers(&mut r, enc, 1).pop().unwrap();
            let cont: Vec<u8> = (0..r.below(5)).map(|_| *r.pick(&alpha)).collect();
            probe(ev, enc, BOMS[r.below(3)], &prefix, &cuts, &buf, &cont, false);
        }
    }
}
