// Workload generators for call histories: bounded-exhaustive enumerators and seeded random
// generators for decoder and encoder histories.
use crate::alpha::*;
use crate::drive::*;
use crate::ev::*;
use crate::util::*;
use encoding_rs::*;

pub struct DecSpace {
    pub encs: Vec<&'static Encoding>,
    pub small_alpha: bool,
    pub maxlen: usize,
    /// extra byte for UTF-16 families (units are two bytes)
    pub utf16_extra: usize,
    pub boms: Vec<Bom>,
    pub sinks: Vec<Sink>,
    pub repls: Vec<bool>,
    /// capacity schedules as offsets above the documented minimum of the sink
    pub cap_offsets: Vec<Vec<usize>>,
    pub last_seps: Vec<bool>,
    /// 1 = exhaustive; k = every k-th case (offset from the seed)
    pub stride: u64,
    /// prepend these prefixes to every stream (BOM workloads); empty = none
    pub prefixes: Vec<Vec<u8>>,
    pub fills: Vec<u8>,
    /// token-grammar streams in addition to the alphabet strings: (max tokens for ISO-2022-JP, for gb18030); 0 = none
    pub token_streams: (usize, usize),
}
impl DecSpace {
    pub fn describe(&self) -> String {
        format!("{} encodings x streams of <= {} symbols over {} family alphabets{} x all cut sets (incl. empty first chunk) x bom {:?} x sinks {:?} x repl {:?} x capacities min+{:?} x last_sep {:?} x fills {:?}, stride {}",
            self.encs.len(), self.maxlen, if self.small_alpha { "reduced" } else { "full" }, if self.prefixes.is_empty() { String::new() } else { format!(" after {} BOM-like prefixes", self.prefixes.len()) },
            self.boms, self.sinks, self.repls, self.cap_offsets, self.last_seps, self.fills, self.stride)
    }
}

/// Enumerate decode histories. `f(case, new_group)`: new_group is true when (enc, stream, bom, sink, repl) changed.
pub fn enum_dec(ctx: &Ctx, ev: &mut Ev, sp: &DecSpace, mut f: impl FnMut(&DecCase, bool, &mut Ev)) {
    let stride = sp.stride.max(1) * ctx.stride_mult();
    let mut ctr: u64 = ctx.rng(77).next() % stride;
    let no_prefix = vec![vec![]];
    for &enc in sp.encs.iter() {
        let alpha = if sp.small_alpha { byte_alpha_small(enc) } else { byte_alpha(enc) };
        let ml = if enc == UTF_16LE || enc == UTF_16BE { sp.maxlen + sp.utf16_extra } else { sp.maxlen };
        let mut tails = strings_over(&alpha, ml);
        if enc == ISO_2022_JP && sp.token_streams.0 > 0 { let toks = iso2022jp_tokens(); let idx: Vec<usize> = (0..toks.len()).collect(); for seq in strings_over(&idx, sp.token_streams.0) { if seq.len() < 2 { continue; } let mut v = vec![]; for t in seq { v.extend_from_slice(toks[t]); } if v.len() <= 9 { tails.push(v); } } }
        if enc == UTF_8 && sp.token_streams.0 > 0 { let toks = utf8_tokens(); let idx: Vec<usize> = (0..toks.len()).collect(); for seq in strings_over(&idx, sp.token_streams.0.min(3)) { if seq.len() < 2 { continue; } let mut v = vec![]; for t in seq { v.extend_from_slice(toks[t]); } if v.len() <= 10 { tails.push(v); } } }
        if (enc == UTF_16LE || enc == UTF_16BE) && sp.token_streams.0 > 0 { for seq in strings_over(&UTF16_UNITS, sp.token_streams.0.min(3).max(3)) { if seq.len() < 3 { continue; } for odd in [false, true] { let mut v = vec![]; for u in seq.iter() { if enc == UTF_16LE { v.push(*u as u8); v.push((*u >> 8) as u8); } else { v.push((*u >> 8) as u8); v.push(*u as u8); } } if odd { v.push(0xD8); } tails.push(v); } } }
        if enc == GB18030 && sp.token_streams.1 > 0 { let toks = gb18030_tokens(); let idx: Vec<usize> = (0..toks.len()).collect(); for seq in strings_over(&idx, sp.token_streams.1) { if seq.len() < 2 { continue; } let mut v = vec![]; for t in seq { v.extend_from_slice(toks[t]); } if v.len() <= 9 { tails.push(v); } } }
        for prefix in (if sp.prefixes.is_empty() { &no_prefix } else { &sp.prefixes }).iter() {
            for tail in tails.iter() {
                if !ev.mine() { continue; }
                let mut stream = prefix.clone(); stream.extend_from_slice(tail);
                let n = stream.len();
                if n > 12 { continue; }
                for &bom in sp.boms.iter() { for &sink in sp.sinks.iter() { for &repl in sp.repls.iter() {
                    let mut new_group = true;
                    let min = dec_min_cap(sink);
                    for offs in sp.cap_offsets.iter() {
                        let caps: Vec<usize> = offs.iter().map(|o| min + o).collect();
                        // all cut sets for streams of <= 5 bytes; for longer (token-grammar) streams: no cut, every single cut,
                        // every pair of cuts two apart, byte-per-call, each also with an empty first chunk
                        let masks: Vec<u32> = if n <= 5 { (0..(1u32 << n.max(1))).collect() } else {
                            let mut m = vec![0u32, 1]; for i in 1..n { m.push(1 << i); m.push((1 << i) | 1); if i + 2 < n { m.push((1 << i) | (1 << (i + 2))); } if i + 1 < n { m.push((1 << i) | (1 << (i + 1))); } }
                            let all: u32 = (1u32 << n) - 2; m.push(all); m.push(all | 1); m };
                        for &last_sep in sp.last_seps.iter() { for &mask in masks.iter() { for &fill in sp.fills.iter() {
                            ctr += 1;
                            if stride > 1 && ctr % stride != 0 { continue; }
                            let cuts = cuts_from_mask(mask, n);
                            let case = DecCase { enc, bom, sink, repl, stream: &stream, cuts: &cuts, last_sep, caps: &caps, fill, src_align: (ctr as usize) % 16, dst_align: ((ctr / 16) as usize) % 16, filler: (ctr as usize) % 16 };
                            f(&case, new_group, ev);
                            new_group = false;
                        } } }
                    }
                } } }
            }
        }
    }
}

/// A random hostile stream for a decoder: ASCII runs of stride-boundary lengths + family/hostile bytes,
/// optionally preceded by a BOM-like prefix.
pub fn random_stream(r: &mut Rng, enc: &'static Encoding, maxseg: usize) -> Vec<u8> {
    let mut s = vec![];
    if r.chance(4) { for _ in 0..r.below(4) { s.push(*r.pick(&BOM_ALPHA)); } }
    let alpha = byte_alpha(enc);
    if enc == UTF_16LE || enc == UTF_16BE {
        let units: [u16; 13] = [0x0000, 0x0041, 0x00E9, 0x4E00, 0xD83D, 0xDCA9, 0xD800, 0xDFFF, 0xFFFD, 0x0080, 0x07FF, 0x0800, 0xFEFF];
        for _ in 0..1 + r.below(maxseg) {
            for i in 0..*r.pick(&RUNS) { let u = 0x20 + (i % 90) as u16; if enc == UTF_16LE { s.push(u as u8); s.push(0); } else { s.push(0); s.push(u as u8); } }
            for _ in 0..r.below(4) { let u = *r.pick(&units); if enc == UTF_16LE { s.push(u as u8); s.push((u >> 8) as u8); } else { s.push((u >> 8) as u8); s.push(u as u8); } if r.chance(3) { if enc == UTF_16LE { s.push(0xA9); s.push(0xDC); } else { s.push(0xDC); s.push(0xA9); } } }
            if r.chance(6) { s.push(*r.pick(&alpha)); }
        }
        return s;
    }
    for _ in 0..1 + r.below(maxseg) {
        for i in 0..*r.pick(&RUNS) { s.push(if r.chance(12) { 0x20 + (i % 28) as u8 } else { 0x61 + (i % 26) as u8 }); }
        for _ in 0..r.below(5) { s.push(if r.chance(3) { *r.pick(&HOSTILE) } else { *r.pick(&alpha) }); }
        if enc == ISO_2022_JP && r.chance(2) { s.extend_from_slice(*r.pick(&iso2022jp_tokens())); }
        if (enc == GB18030 || enc == GBK) && r.chance(2) { s.extend_from_slice(*r.pick(&gb18030_tokens())); }
        if enc == UTF_8 && r.chance(2) { s.extend_from_slice(["\u{E9}", "\u{4E00}", "\u{1F4A9}", "\u{FFFD}", "\u{7FF}", "\u{800}", "\u{10000}", "\u{10FFFF}"][r.below(8)].as_bytes()); }
    }
    s
}
pub fn random_cuts(r: &mut Rng, n: usize) -> Vec<usize> {
    let mut cuts: Vec<usize> = match r.below(4) {
        0 => vec![],
        1 => (0..r.below(4)).map(|_| r.below(n + 1)).collect(),
        2 => (1..n).filter(|_| r.chance(3)).collect(),
        _ => { let step = 1 + r.below(70); (1..n).filter(|i| i % step == 0).collect() }
    };
    cuts.sort();
    cuts
}
pub fn random_caps(r: &mut Rng, min: usize, big: bool) -> Vec<usize> {
    match r.below(if big { 5 } else { 3 }) {
        0 => vec![min + r.below(4)],
        1 => (0..1 + r.below(3)).map(|_| min + r.below(6)).collect(),
        2 => vec![min, min + 40],
        3 => vec![*r.pick(&[8usize, 9, 16, 17, 23, 40, 64, 200, 700]).max(&min)],
        _ => (0..1 + r.below(3)).map(|_| (*r.pick(&[8usize, 15, 16, 17, 31, 33, 64, 100, 700])).max(min)).collect(),
    }
}

pub struct EncSpace {
    pub encs: Vec<&'static Encoding>,
    pub alpha: Vec<u32>,
    pub maxlen: usize,
    pub src16s: Vec<bool>,
    pub vec_sinks: Vec<bool>,
    pub repls: Vec<bool>,
    pub cap_offsets: Vec<Vec<usize>>,
    pub last_seps: Vec<bool>,
    pub stride: u64,
    pub fills: Vec<u8>,
    /// extend the alphabet per encoder with mappable/unmappable representatives of the ideograph, kana and hangul arms
    pub per_encoder: bool,
}
impl EncSpace {
    pub fn describe(&self) -> String {
        format!("{} encoders x texts of <= {} characters over a {}-scalar alphabet (+ lone surrogates for UTF-16 sources) x all cut sets x src16 {:?} x vec_sink {:?} x repl {:?} x capacities min+{:?} x last_sep {:?} x fills {:?}, stride {}",
            self.encs.len(), self.maxlen, self.alpha.len() + if self.per_encoder { 6 } else { 0 }, self.src16s, self.vec_sinks, self.repls, self.cap_offsets, self.last_seps, self.fills, self.stride)
    }
}
/// Enumerate encode histories. new_group is true when (enc, text, src16, repl) changed.
pub fn enum_enc(ctx: &Ctx, ev: &mut Ev, sp: &EncSpace, mut f: impl FnMut(&EncCase, bool, &mut Ev)) {
    let stride = sp.stride.max(1) * ctx.stride_mult();
    let mut ctr: u64 = ctx.rng(78).next() % stride;
    let shared = strings_over(&sp.alpha, sp.maxlen);
    for &enc in sp.encs.iter() {
        let own; let texts = if sp.per_encoder { own = strings_over(&encoder_alpha_small(enc, &sp.alpha), sp.maxlen); &own } else { &shared };
        for text in texts.iter() {
            if !ev.mine() { continue; }
            let n = text.len();
            let has_lone = text.iter().any(|a| is_lone(*a));
            if has_lone && text.windows(2).any(|w| (0xD800..0xDC00).contains(&w[0]) && (0xDC00..0xE000).contains(&w[1])) { continue; }
            for &src16 in sp.src16s.iter() { if has_lone && !src16 { continue; } for &repl in sp.repls.iter() {
                let mut new_group = true;
                let min = enc_min_cap(repl);
                for &vec_sink in sp.vec_sinks.iter() { if vec_sink && src16 { continue; }
                    for offs in sp.cap_offsets.iter() {
                        let caps: Vec<usize> = offs.iter().map(|o| min + o).collect();
                        // all cut sets for streams of <= 5 bytes; for longer (token-grammar) streams: no cut, every single cut,
                        // every pair of cuts two apart, byte-per-call, each also with an empty first chunk
                        let masks: Vec<u32> = if n <= 5 { (0..(1u32 << n.max(1))).collect() } else {
                            let mut m = vec![0u32, 1]; for i in 1..n { m.push(1 << i); m.push((1 << i) | 1); if i + 2 < n { m.push((1 << i) | (1 << (i + 2))); } if i + 1 < n { m.push((1 << i) | (1 << (i + 1))); } }
                            let all: u32 = (1u32 << n) - 2; m.push(all); m.push(all | 1); m };
                        for &last_sep in sp.last_seps.iter() { for &mask in masks.iter() { for &fill in sp.fills.iter() {
                            ctr += 1;
                            if stride > 1 && ctr % stride != 0 { continue; }
                            let cuts = cuts_from_mask(mask, n);
                            let case = EncCase { enc, src16, vec_sink, repl, atoms: text, cuts: &cuts, last_sep, caps: &caps, fill, src_align: (ctr as usize) % 16, dst_align: ((ctr / 16) as usize) % 16 };
                            f(&case, new_group, ev);
                            new_group = false;
                        } } }
                    }
                }
            } }
        }
    }
}
/// Random text atoms: ASCII runs of stride-boundary lengths + alphabet characters (+ lone surrogates if allowed)
pub fn random_text(r: &mut Rng, maxseg: usize, lone: bool) -> Vec<u32> {
    let mut t: Vec<u32> = vec![];
    for _ in 0..1 + r.below(maxseg) {
        for i in 0..*r.pick(&RUNS) { t.push(if r.chance(12) { 0x20 + (i % 28) as u32 } else { 0x61 + (i % 26) as u32 }); }
        for _ in 0..r.below(5) {
            let a = if lone && r.chance(6) { *r.pick(&LONE) } else { *r.pick(&SCALARS_WIDE) };
            if let Some(&p) = t.last() { if (0xD800..0xDC00).contains(&p) && (0xDC00..0xE000).contains(&a) { continue; } }
            t.push(a);
        }
    }
    t
}
