// Small helpers: PRNG, hashing, hex and JSON string formatting.
use encoding_rs::*;

pub static ALL: [&Encoding; 40] = [
    BIG5, EUC_JP, EUC_KR, GBK, IBM866, ISO_2022_JP, ISO_8859_10, ISO_8859_13, ISO_8859_14, ISO_8859_15,
    ISO_8859_16, ISO_8859_2, ISO_8859_3, ISO_8859_4, ISO_8859_5, ISO_8859_6, ISO_8859_7, ISO_8859_8,
    ISO_8859_8_I, KOI8_R, KOI8_U, SHIFT_JIS, UTF_16BE, UTF_16LE, UTF_8, GB18030, MACINTOSH, REPLACEMENT,
    WINDOWS_1250, WINDOWS_1251, WINDOWS_1252, WINDOWS_1253, WINDOWS_1254, WINDOWS_1255, WINDOWS_1256,
    WINDOWS_1257, WINDOWS_1258, WINDOWS_874, X_MAC_CYRILLIC, X_USER_DEFINED,
];

/// One representative per decoder implementation ("family"), plus a few single-byte tables.
pub fn families() -> Vec<&'static Encoding> {
    vec![UTF_8, UTF_16LE, UTF_16BE, BIG5, EUC_KR, SHIFT_JIS, EUC_JP, GB18030, GBK, ISO_2022_JP, REPLACEMENT,
         WINDOWS_1252, WINDOWS_1255, X_USER_DEFINED, ISO_8859_6]
}
pub fn single_bytes() -> Vec<&'static Encoding> {
    ALL.iter().copied().filter(|e| e.is_single_byte()).collect()
}
pub fn enc_by_name(n: &str) -> &'static Encoding {
    ALL.iter().copied().find(|e| e.name() == n).unwrap_or_else(|| panic!("unknown encoding {}", n))
}

/// splitmix64
#[derive(Clone)]
pub struct Rng(pub u64);
impl Rng {
    pub fn new(seed: u64) -> Rng { Rng(seed) }
    pub fn from_parts(seed: u64, prop: &str, shard: usize, salt: u64) -> Rng {
        let mut h = seed ^ 0x9E3779B97F4A7C15;
        for b in prop.bytes() { h = mix(h ^ b as u64); }
        h = mix(h ^ (shard as u64).wrapping_mul(0xD1342543DE82EF95));
        h = mix(h ^ salt);
        Rng(h)
    }
    #[inline]
    pub fn next(&mut self) -> u64 {
        self.0 = self.0.wrapping_add(0x9E3779B97F4A7C15);
        let mut z = self.0;
        z = (z ^ (z >> 30)).wrapping_mul(0xBF58476D1CE4E5B9);
        z = (z ^ (z >> 27)).wrapping_mul(0x94D049BB133111EB);
        z ^ (z >> 31)
    }
    #[inline]
    pub fn below(&mut self, k: usize) -> usize { if k == 0 { 0 } else { (self.next() % k as u64) as usize } }
    #[inline]
    pub fn chance(&mut self, one_in: usize) -> bool { self.below(one_in) == 0 }
    pub fn pick<'a, T>(&mut self, v: &'a [T]) -> &'a T { &v[self.below(v.len())] }
}
#[inline]
pub fn mix(mut z: u64) -> u64 {
    z = (z ^ (z >> 30)).wrapping_mul(0xBF58476D1CE4E5B9);
    z = (z ^ (z >> 27)).wrapping_mul(0x94D049BB133111EB);
    z ^ (z >> 31)
}

/// FNV-1a style incremental 64-bit hasher used for case identity and transcripts.
#[derive(Clone, Copy)]
pub struct H(pub u64);
impl H {
    pub fn new() -> H { H(0xcbf29ce484222325) }
    #[inline]
    pub fn b(&mut self, x: &[u8]) -> &mut H { for v in x { self.0 ^= *v as u64; self.0 = self.0.wrapping_mul(0x100000001b3); } self.u(x.len() as u64) }
    #[inline]
    pub fn u(&mut self, x: u64) -> &mut H { self.0 ^= x; self.0 = self.0.wrapping_mul(0x100000001b3); self.0 ^= self.0 >> 29; self }
    pub fn s(&mut self, x: &str) -> &mut H { self.b(x.as_bytes()) }
    pub fn u16s(&mut self, x: &[u16]) -> &mut H { for v in x { self.u(*v as u64); } self.u(x.len() as u64) }
    pub fn u32s(&mut self, x: &[u32]) -> &mut H { for v in x { self.u(*v as u64); } self.u(x.len() as u64) }
    pub fn get(&self) -> u64 { mix(self.0) }
}

pub fn hex(b: &[u8]) -> String { let mut s = String::with_capacity(b.len() * 2); for x in b { s.push_str(&format!("{:02x}", x)); } s }
pub fn hex16(b: &[u16]) -> String { b.iter().map(|x| format!("{:04x}", x)).collect::<Vec<_>>().join(" ") }
pub fn hex32(b: &[u32]) -> String { b.iter().map(|x| format!("{:x}", x)).collect::<Vec<_>>().join(" ") }
pub fn hexs(b: &[u8]) -> String { if b.len() > 96 { format!("{}..(+{} bytes)", hex(&b[..96]), b.len() - 96) } else { hex(b) } }

pub fn jstr(s: &str) -> String {
    let mut o = String::with_capacity(s.len() + 2);
    o.push('"');
    for c in s.chars() {
        match c {
            '"' => o.push_str("\\\""),
            '\\' => o.push_str("\\\\"),
            '\n' => o.push_str("\\n"),
            '\r' => o.push_str("\\r"),
            '\t' => o.push_str("\\t"),
            c if (c as u32) < 0x20 || c == '\u{7f}' => o.push_str(&format!("\\u{:04x}", c as u32)),
            c => o.push(c),
        }
    }
    o.push('"');
    o
}

pub fn scalars_to_string(cps: &[u32]) -> String { cps.iter().map(|c| char::from_u32(*c).expect("scalar")).collect() }
pub fn str_scalars(s: &str) -> Vec<u32> { s.chars().map(|c| c as u32).collect() }

/// All strings of length 0..=maxlen over an alphabet (length-lexicographic order).
pub fn strings_over<T: Clone>(alpha: &[T], maxlen: usize) -> Vec<Vec<T>> {
    let mut out: Vec<Vec<T>> = vec![vec![]];
    let mut cur: Vec<Vec<T>> = vec![vec![]];
    for _ in 0..maxlen {
        let mut next = Vec::with_capacity(cur.len() * alpha.len());
        for s in cur.iter() { for a in alpha { let mut t = s.clone(); t.push(a.clone()); next.push(t); } }
        out.extend(next.iter().cloned());
        cur = next;
    }
    out
}

pub fn panic_message(e: &Box<dyn std::any::Any + Send>) -> String {
    if let Some(s) = e.downcast_ref::<&str>() { s.to_string() } else if let Some(s) = e.downcast_ref::<String>() { s.clone() } else { "<non-string panic>".into() }
}
