// C12 Encoder output is always valid target-encoding text that decodes to the input.
// Monitor: after EVERY encode call the real decoder of the same encoding (no BOM handling, without
// replacement) decodes all bytes emitted so far; has_pending_state() is compared with the escape
// state of the emitted bytes; the final text is compared with the input modulo the documented folding.
use crate::alpha::*;
use crate::drive::*;
use crate::ev::*;
use crate::hist::*;
use crate::model::{EItem, M, KATAKANA, GB2022};
use crate::util::*;
use encoding_rs::*;

/// the fixed set of characters the Standard's encoders fold on purpose
fn fold(oe: &'static Encoding, c: u32) -> u32 {
    let jp = oe == EUC_JP || oe == SHIFT_JIS || oe == ISO_2022_JP;
    if (oe == EUC_JP || oe == SHIFT_JIS) && c == 0xA5 { return 0x5C; }
    if (oe == EUC_JP || oe == SHIFT_JIS) && c == 0x203E { return 0x7E; }
    if jp && c == 0x2212 { return 0xFF0D; }
    if oe == ISO_2022_JP && (0xFF61..=0xFF9F).contains(&c) { return KATAKANA[(c - 0xFF61) as usize]; }
    if oe == GBK || oe == GB18030 { if let Some((_, b)) = GB2022.iter().find(|(p, _)| *p == c) { let items = M.decode("gb18030", b); if let [crate::model::Item::C(x)] = items[..] { return x; } } }
    c
}
/// escape state of an ISO-2022-JP byte stream produced by the encoder: false = ASCII
fn outside_ascii(bytes: &[u8]) -> bool { let mut st = false; let mut i = 0; while i + 2 < bytes.len() { if bytes[i] == 0x1B { st = !(bytes[i + 1] == 0x28 && bytes[i + 2] == 0x42); i += 3; } else { i += 1; } } st }

pub fn check(drv: &mut Driver, ev: &mut Ev, case: &EncCase, enumerated: bool) {
    let tr = ev.case();
    let out = drv.run_enc(case, ev);
    let oe = case.enc.output_encoding();
    if tr { println!("TRACE {} | calls: {} | bytes={} ends={:?} pending_after={:?}", case.describe(), fmt_calls(&out.calls), hex(&out.bytes), out.ends, out.pending_after); }
    ev.count("roundtrip.histories");
    if case.atoms.iter().any(|a| *a >= 0x80 || *a == 0x1B) { if enumerated { ev.nontrivial_enum(); } else { ev.nontrivial_hash(case.hash()); } }
    let key = |k: &str| format!("{}:{}:{}", crate::c01::family(oe), if case.src16 { "utf16" } else { "utf8" }, k);
    if out.fail_of(&[FailKind::Panic, FailKind::Stuck]).is_some() { ev.count("roundtrip.aborted(panic/stuck: C06/C08)"); return; }
    // (1) every prefix decodes without error; (2) has_pending_state after every call
    // without replacement the caller follows the documented procedure and writes the numeric character
    // reference itself after each Unmappable result (writing nothing there is outside this property)
    let mut emitted: Vec<u8> = Vec::with_capacity(out.bytes.len() + 16); let mut prev_end = 0usize;
    for (ci, &end) in out.ends.iter().enumerate() {
        ev.count("roundtrip.prefix-decodes"); ev.api_calls += 1;
        emitted.extend_from_slice(&out.bytes[prev_end..end]); prev_end = end;
        if let Res::Unmappable(c) = out.calls[ci].res { emitted.extend_from_slice(format!("&#{};", c).as_bytes()); }
        let pre = &emitted[..];
        let end = pre.len();
        let mut d = oe.new_decoder_without_bom_handling();
        let mut dst = vec![0u16; pre.len() + 8];
        let (res, _rd, _wr) = d.decode_to_utf16_without_replacement(pre, &mut dst, false);
        if let DecoderResult::Malformed(..) = res { ev.violation("roundtrip", &key("prefix-undecodable"), format!("after call {} the {} bytes emitted so far ({}) are rejected by the {} decoder | {} | calls: {}", ci, end, hexs(pre), oe.name(), case.describe(), fmt_calls(&out.calls))); return; }
        // nothing may be left half-written at a call boundary either: finishing the stream here must not fail
        let (res2, _, _) = d.decode_to_utf16_without_replacement(b"", &mut dst, true);
        if let DecoderResult::Malformed(..) = res2 { ev.violation("roundtrip", &key("prefix-ends-mid-sequence"), format!("after call {} the bytes emitted so far ({}) end inside a byte sequence | {} | calls: {}", ci, hexs(pre), case.describe(), fmt_calls(&out.calls))); return; }
        let pend = out.pending_after[ci];
        let exp_pend = oe == ISO_2022_JP && outside_ascii(pre);
        ev.count("roundtrip.pending-state-checks");
        if pend != exp_pend { ev.violation("roundtrip", &key("has_pending_state"), format!("after call {} has_pending_state()={} but the emitted bytes ({}) leave the stream {} the ASCII state | {}", ci, pend, hexs(pre), if exp_pend { "outside" } else { "in" }, case.describe())); return; }
        ev.state(H::new().s(oe.name()).u(pend as u64).u(13).get(), || format!("{} pending_state={}", oe.name(), pend));
    }
    if !out.finished { return; }
    if oe == ISO_2022_JP && outside_ascii(&emitted) { ev.violation("roundtrip", &key("final-state-not-ascii"), format!("complete output {} does not return to the ASCII state | {}", hexs(&emitted), case.describe())); return; }
    // (3) decoded text == input with NCRs for model-unmappables, modulo the fixed folding table
    let (cow, had) = oe.decode_without_bom_handling(&emitted);
    ev.api_calls += 1;
    let got: Vec<u32> = cow.chars().map(|c| c as u32).collect();
    let scal = atoms_scalars(case.atoms);
    let mut exp: Vec<u32> = vec![];
    for &c in scal.iter() {
        let un = M.encode(oe.name(), &[c]).iter().any(|i| matches!(i, EItem::U(_)));
        if un { let r = if oe == ISO_2022_JP && matches!(c, 0x0E | 0x0F | 0x1B) { 0xFFFD } else { c }; exp.extend(format!("&#{};", r).chars().map(|x| x as u32)); } else { exp.push(fold(oe, c)); }
    }
    ev.count("roundtrip.final-text-checks");
    if had || got != exp { ev.violation("roundtrip", &key("text"), format!("decoding the complete output gives [{}] (errors={}), expected [{}] | {} | bytes={}", hex32(&got), had, hex32(&exp), case.describe(), hexs(&out.bytes))); }
    ev.sample(|| format!("{} -> bytes {}", case.describe(), hexs(&out.bytes)));
}

pub fn run(ctx: &Ctx, ev: &mut Ev) {
    let mut drv = Driver::new();
    let th = ctx.thorough();
    let tiny = !ctx.native();
    // (a) every scalar alone and embedded between ASCII and non-ASCII neighbours
    if ctx.want("scalars") && !tiny {
        for &enc in ALL.iter() {
            let oe = enc.output_encoding();
            if oe == UTF_8 && enc != UTF_8 { continue; }
            let rep = encoder_families().contains(&enc);
            for block in 0..0x1100u32 {
                if !ev.mine() { continue; }
                for cp in (block << 8)..(block << 8) + 0x100 {
                    if (0xD800..0xE000).contains(&cp) { continue; }
                    if !th { if cp > 0xFFFF && !((0x2008A..=0x2F8A6).contains(&cp) && oe == BIG5) && cp % 16 != block % 16 { continue; } if !rep && cp > 0x2FF && cp % 8 != block % 8 && !(0x2000..0x2700).contains(&cp) { continue; } }
                    let variants: [&[u32]; 3] = [&[cp], &[0x41, cp, 0x42], &[0x3042, cp, 0xE9]];
                    for (k, t) in variants.iter().enumerate() {
                        if k > 0 && !th && cp % 4 != 0 { continue; }
                        let caps = [40usize];
                        let case = EncCase { enc, src16: (cp + k as u32) % 2 == 0, vec_sink: false, repl: true, atoms: t, cuts: &[], last_sep: cp % 3 == 0, caps: &caps, fill: 0x44, src_align: 0, dst_align: 0 };
                        check(&mut drv, ev, &case, true);
                    }
                }
            }
        }
    }
    // (b) bounded-exhaustive histories (alphabet texts x cut sets x capacities), with and without replacement
    if ctx.want("enum") {
        let mut alpha: Vec<u32> = if th { SCALARS.to_vec() } else { SCALARS_SMALL.to_vec() }; alpha.push(0xD800); alpha.push(0x2603);
        let sp = EncSpace { encs: encoder_families(), alpha, maxlen: if tiny { 2 } else { 3 }, src16s: vec![false, true], vec_sinks: vec![false, true], repls: vec![true, false],
            cap_offsets: vec![vec![0], vec![1], vec![2], vec![3], vec![5], vec![0, 10]], last_seps: vec![false, true], stride: if tiny { 53 } else if th { 2 } else { 2 }, fills: vec![0x44], per_encoder: true };
        ev.note(format!("enum: {}", sp.describe()));
        enum_enc(ctx, ev, &sp, |case, _ng, ev| check(&mut drv, ev, case, true));
    }
    if ctx.want("random") {
        let mut r = ctx.rng(12);
        let n = ctx.budget(150_000, 5_000_000);
        for i in 0..n {
            let enc = ALL[r.below(40)]; let src16 = r.chance(2);
            let t = random_text(&mut r, if i % 40 == 0 { 12 } else { 3 }, src16); let t = &t[..t.len().min(600)];
            if t.windows(2).any(|w| (0xD800..0xDC00).contains(&w[0]) && (0xDC00..0xE000).contains(&w[1])) { continue; }
            let repl = !r.chance(4);
            let cuts = random_cuts(&mut r, t.len()); let caps = random_caps(&mut r, enc_min_cap(repl), true);
            let case = EncCase { enc, src16, vec_sink: !src16 && r.chance(3), repl, atoms: t, cuts: &cuts, last_sep: r.chance(2), caps: &caps, fill: 0x44, src_align: r.below(16), dst_align: r.below(16) };
            check(&mut drv, ev, &case, false);
        }
    }
}
