// C20 Encoding metadata predicates tell the truth about actual conversion behaviour.
// Oracle: each predicate recomputed from observed behaviour over a finite separating space
// (all byte strings of length <= 2, the ISO-2022-JP escapes, every scalar value).
use crate::ev::*;
use crate::util::*;
use encoding_rs::*;
use std::collections::HashSet;

fn dec16_len(enc: &'static Encoding, b: &[u8]) -> usize { let mut d = enc.new_decoder_without_bom_handling(); let mut dst = [0u16; 16]; let (_, _, w, _) = d.decode_to_utf16(b, &mut dst, true); w }

pub fn run(ctx: &Ctx, ev: &mut Ev) {
    let th = ctx.thorough();
    let tiny = !ctx.native();
    let mut set: HashSet<&'static Encoding> = HashSet::new();
    for &enc in ALL.iter() {
        set.insert(enc);
        if !ev.mine() { continue; }
        let name = enc.name(); let oe = enc.output_encoding();
        // --- is_ascii_compatible: bytes 00-7F decode to U+0000-U+007F and those characters encode back to the same single bytes
        ev.case(); ev.nontrivial_enum();
        let mut dec_ok = true; let mut enc_ok = true;
        for b in 0u8..0x80 { ev.api_calls += 2; let bb = [b]; let (s, _) = enc.decode_without_bom_handling(&bb); if s.chars().map(|c| c as u32).collect::<Vec<_>>() != vec![b as u32] { dec_ok = false; }
            let st = (b as char).to_string(); let mut e = enc.new_encoder(); let mut dst = [0u8; 16]; let (res, _, w) = e.encode_from_utf8_without_replacement(&st, &mut dst, true); if !(res == EncoderResult::InputEmpty && w == 1 && dst[0] == b) { enc_ok = false; } }
        let behaviour = dec_ok && enc_ok && oe == enc;
        ev.count("metadata.is_ascii_compatible");
        if enc.is_ascii_compatible() != behaviour { ev.violation("metadata", &format!("is_ascii_compatible:{}", name), format!("is_ascii_compatible()={} but bytes 00-7F decode to themselves: {}, ASCII characters encode to the same single bytes: {}, encoder exists for this encoding: {}", enc.is_ascii_compatible(), dec_ok, enc_ok, oe == enc)); }
        // --- is_single_byte: every byte string decodes to as many UTF-16 units as bytes; every mappable scalar encodes to one byte
        ev.case(); ev.nontrivial_enum();
        let mut sb = true; let mut witness = String::new();
        'o: for a in 0..=255u8 { if dec16_len(enc, &[a]) != 1 { sb = false; witness = format!("byte {:02x} decodes to {} units", a, dec16_len(enc, &[a])); break; } if tiny && a % 16 != 0 { continue; } for b in 0..=255u8 { ev.api_calls += 1; if dec16_len(enc, &[a, b]) != 2 { sb = false; witness = format!("bytes {:02x}{:02x} decode to {} units", a, b, dec16_len(enc, &[a, b])); break 'o; } } }
        if sb { for esc in [&b"\x1B(B"[..], b"\x1B$B", b"\x1B(J"] { ev.api_calls += 1; if dec16_len(enc, esc) != 3 { sb = false; witness = format!("the three bytes {} decode to {} units", hex(esc), dec16_len(enc, esc)); break; } } }
        if sb && oe == enc { for c in (0..0x110000u32).filter_map(char::from_u32) { if tiny && (c as u32) % 257 != 0 { continue; } ev.api_calls += 1; let s = c.to_string(); let mut e = enc.new_encoder(); let mut dst = [0u8; 16]; let (res, _, w) = e.encode_from_utf8_without_replacement(&s, &mut dst, true); if res == EncoderResult::InputEmpty && w != 1 { sb = false; witness = format!("U+{:04X} encodes to {} bytes", c as u32, w); break; } } }
        ev.count("metadata.is_single_byte");
        if enc.is_single_byte() != sb { ev.violation("metadata", &format!("is_single_byte:{}", name), format!("is_single_byte()={} but behaviour says {} ({})", enc.is_single_byte(), sb, witness)); }
        // --- can_encode_everything: no scalar value is unmappable (through the encoder new_encoder() actually gives)
        ev.case(); ev.nontrivial_enum();
        let mut all = true; let mut w = 0u32;
        for c in (0..0x110000u32).filter(|c| th || *c < 0x10000 || c % 16 == 5 || (0x2008A..=0x2F8A6).contains(c)).filter_map(char::from_u32) { if tiny && (c as u32) % 257 != 3 { continue; } ev.api_calls += 1; let s = c.to_string(); let mut e = enc.new_encoder(); let mut dst = [0u8; 16]; let (res, _, _) = e.encode_from_utf8_without_replacement(&s, &mut dst, true); if let EncoderResult::Unmappable(_) = res { all = false; w = c as u32; break; } }
        ev.count("metadata.can_encode_everything");
        if enc.can_encode_everything() != all { ev.violation("metadata", &format!("can_encode_everything:{}", name), format!("can_encode_everything()={} but {} (encoder used: {})", enc.can_encode_everything(), if all { "no scalar value was unmappable".to_string() } else { format!("U+{:04X} is unmappable", w) }, oe.name())); }
        // --- output_encoding
        ev.case(); ev.nontrivial_enum(); ev.api_calls += 4; ev.count("metadata.output_encoding");
        if enc.new_encoder().encoding() != oe || enc.encode("x").1 != oe || enc.encode("\u{E9}\u{3042}").1 != oe || oe.output_encoding() != oe { ev.violation("metadata", &format!("output_encoding:{}", name), format!("output_encoding()={} new_encoder().encoding()={} encode().1={} output_encoding().output_encoding()={}", oe.name(), enc.new_encoder().encoding().name(), enc.encode("x").1.name(), oe.output_encoding().name())); }
        let exp_oe = if matches!(name, "UTF-16LE" | "UTF-16BE" | "replacement") { UTF_8 } else { enc };
        // (the Standard's get-an-output-encoding rule itself is not part of C20 as stated: recorded, not judged)
        ev.count(if oe == exp_oe { "metadata.output_encoding-equals-get-an-output-encoding" } else { "metadata.output_encoding-differs-from-get-an-output-encoding" });
        // --- identity, equality, hashing, name
        ev.case(); ev.nontrivial_enum(); ev.count("metadata.identity");
        if Encoding::for_label(name.as_bytes()) != Some(enc) { ev.violation("metadata", &format!("name:{}", name), format!("for_label(name()) does not give back {}", name)); }
        for &other in ALL.iter() { if (enc == other) != std::ptr::eq(enc, other) { ev.violation("metadata", "equality", format!("{} == {} is {} but they are {} instance", name, other.name(), enc == other, if std::ptr::eq(enc, other) { "the same" } else { "different" })); } }
        ev.state(H::new().s(name).get(), || format!("{} ascii_compatible={} single_byte={} can_encode_everything={} output={}", name, enc.is_ascii_compatible(), enc.is_single_byte(), enc.can_encode_everything(), oe.name()));
        ev.sample(|| format!("{}: ascii_compatible={} (behaviour {}) single_byte={} (behaviour {}) can_encode_everything={} (behaviour {}) output_encoding={}", name, enc.is_ascii_compatible(), behaviour, enc.is_single_byte(), sb, enc.can_encode_everything(), all, oe.name()));
    }
    if ctx.shard == 0 {
        ev.case(); ev.nontrivial_enum(); ev.count("metadata.hash-distinct");
        if set.len() != 40 { ev.violation("metadata", "hash", format!("the 40 statics collapse to {} entries in a HashSet", set.len())); }
        let names: HashSet<&str> = ALL.iter().map(|e| e.name()).collect();
        if names.len() != 40 { ev.violation("metadata", "names", format!("{} distinct names for 40 encodings", names.len())); }
    }
    if !tiny { ev.exhaustive("40 encodings x all byte strings of length <= 2 x scalar values (thorough: all 1,112,064; quick: BMP + Big5 astral window + 1/16 of the rest)"); }
}
