// Model / harness self-tests (part of setup): the oracle must be self-consistent before it judges the crate.
use crate::ev::*;
use crate::model::*;
use crate::util::*;

pub fn run(_ctx: &Ctx, ev: &mut Ev) {
    let mut fails = 0u64; let mut n = 0u64;
    let mut expect = |ok: bool, what: String, ev: &mut Ev| { n += 1; ev.case(); if !ok { fails += 1; ev.violation("selftest", &what.chars().take(40).collect::<String>(), what); } };
    // (1) model decode(model encode(c)) == c for every index entry (modulo duplicates: encode picks one pointer, decode of it gives c back)
    for name in ["Big5", "EUC-KR", "Shift_JIS", "EUC-JP", "gb18030", "GBK", "ISO-2022-JP"] {
        let ix = match name { "Big5" => ix_big5(), "EUC-KR" => ix_euckr(), "gb18030" | "GBK" => ix_gb(), _ => ix_jis0208() };
        let mut seen = std::collections::HashSet::new();
        for (_p, c) in ix.tab.iter().enumerate() { if *c == 0 || !seen.insert(*c) { continue; }
            let e = M.encode(name, &[*c]);
            if let [EItem::B(b)] = &e[..] { let d = M.decode(name, b); let back: Vec<u32> = d.iter().filter_map(|i| if let Item::C(x) = i { Some(*x) } else { None }).collect(); let ok = d.iter().all(|i| matches!(i, Item::C(_))) && (back == vec![*c] || (name == "ISO-2022-JP" && back.len() == 1) || fold_ok(name, *c, &back)); expect(ok, format!("{} model roundtrip U+{:04X} -> {} -> {:x?}", name, c, hex(b), back), ev); }
            // unmappable through the encoder although present in the index: Big5 low pointers, Shift_JIS excluded range
            else if name != "Big5" && name != "Shift_JIS" && name != "EUC-JP" && name != "ISO-2022-JP" && *c != 0xE5E5 { expect(false, format!("{} model cannot encode index entry U+{:04X}: {:?}", name, c, e), ev); }
        }
    }
    for name in SINGLE.iter() { let s = single(name); for p in 0..128usize { if let Some(c) = s.ix.get(p) { let e = M.encode(name, &[c]); let ok = if let [EItem::B(b)] = &e[..] { M.decode(name, b) == vec![Item::C(c)] } else { false }; expect(ok, format!("{} model roundtrip U+{:04X}", name, c), ev); } } }
    // (2) span rules on hand-written cases from the crate documentation / the Standard
    let cases: [(&str, &[u8], &[Item]); 14] = [
        ("Big5", b"\x81\x41", &[Item::E(0, 1), Item::C(0x41)]),
        ("Big5", b"\x81\xFF", &[Item::E(0, 2)]),
        ("Big5", b"\x88\x62", &[Item::C(0xCA), Item::C(0x304)]),
        ("UTF-8", b"\xE0\x80", &[Item::E(0, 1), Item::E(1, 2)]),
        ("UTF-8", b"\xF0\x90\x80\x41", &[Item::E(0, 3), Item::C(0x41)]),
        ("UTF-8", b"\xED\xA0\x80", &[Item::E(0, 1), Item::E(1, 2), Item::E(2, 3)]),
        ("gb18030", b"\x81\x30\x41", &[Item::E(0, 1), Item::C(0x30), Item::C(0x41)]),
        ("gb18030", b"\x81\x30\x81\x41", &[Item::E(0, 1), Item::C(0x30), Item::C(0x4E04)]),
        ("gb18030", b"\x84\x31\xA4\x39", &[Item::C(0xFFFF)]),
        ("ISO-2022-JP", b"\x1B(B\x1B(J", &[Item::E(0, 3)]),
        ("ISO-2022-JP", b"\x1B$B\x21\x1B(B", &[Item::E(3, 4)]),
        ("UTF-16LE", b"\x00\xD8\x41\x00", &[Item::E(0, 2), Item::C(0x41)]),
        ("UTF-16BE", b"\xD8\x00\xDC", &[Item::E(0, 3)]),
        ("EUC-JP", b"\x8F\xA1\x41", &[Item::E(0, 2), Item::C(0x41)]),
    ];
    for (name, bytes, exp) in cases.iter() { let got = M.decode(name, bytes); expect(&got[..] == *exp, format!("{} {} -> {:?}, expected {:?}", name, hex(bytes), got, exp), ev); }
    // (3) encoder rules the Standard singles out
    let e = |n: &str, c: u32| M.encode(n, &[c]);
    expect(e("Big5", 0x2550) == vec![EItem::B(vec![0xF9, 0xF9])], format!("Big5 U+2550 prefers the last pointer: {:?}", e("Big5", 0x2550)), ev);
    expect(e("Big5", 0x5341) == vec![EItem::B(vec![0xA4, 0x51])], format!("Big5 U+5341: {:?}", e("Big5", 0x5341)), ev);
    expect(e("Shift_JIS", 0x2252) == vec![EItem::B(vec![0x81, 0xE0])], format!("Shift_JIS U+2252 skips pointers 8272..8835: {:?}", e("Shift_JIS", 0x2252)), ev);
    expect(e("gb18030", 0xE5E5) == vec![EItem::U(0xE5E5)], "gb18030 U+E5E5 is an error".into(), ev);
    expect(e("GBK", 0x20AC) == vec![EItem::B(vec![0x80])], "GBK euro is 0x80".into(), ev);
    expect(e("gb18030", 0x20AC) == vec![EItem::B(vec![0xA2, 0xE3])], format!("gb18030 euro: {:?}", e("gb18030", 0x20AC)), ev);
    expect(e("gb18030", 0xE7C7) == vec![EItem::B(vec![0x81, 0x35, 0xF4, 0x37])], format!("gb18030 U+E7C7: {:?}", e("gb18030", 0xE7C7)), ev);
    expect(e("gb18030", 0xE78D) == vec![EItem::B(vec![0xA6, 0xD9])], "gb18030-2022 override".into(), ev);
    expect(e("GBK", 0x1F4A9) == vec![EItem::U(0x1F4A9)], "GBK has no four-byte form".into(), ev);
    expect(M.encode("ISO-2022-JP", &[0x3042, 0x41]) == vec![EItem::B(vec![0x1B, 0x24, 0x42, 0x24, 0x22, 0x1B, 0x28, 0x42, 0x41])], "ISO-2022-JP escapes".into(), ev);
    expect(M.encode("ISO-2022-JP", &[0xA5]) == vec![EItem::B(vec![0x1B, 0x28, 0x4A, 0x5C, 0x1B, 0x28, 0x42])], "ISO-2022-JP Roman + final escape".into(), ev);
    expect(M.encode("ISO-2022-JP", &[0x1B]) == vec![EItem::U(0xFFFD)], "ISO-2022-JP ESC is error(U+FFFD)".into(), ev);
    expect(M.encode("ISO-2022-JP", &[0xFF71]) == M.encode("ISO-2022-JP", &[0x30A2]), "ISO-2022-JP half-width katakana folding".into(), ev);
    expect(e("EUC-JP", 0x2212) == e("EUC-JP", 0xFF0D), "EUC-JP U+2212 folding".into(), ev);
    expect(e("windows-1252", 0x20AC) == vec![EItem::B(vec![0x80])], "windows-1252 euro".into(), ev);
    expect(e("windows-1255", 0x5BA) == vec![EItem::B(vec![0xCA])], "windows-1255 0xCA".into(), ev);
    expect(e("KOI8-U", 0x45E) == vec![EItem::B(vec![0xAE])], "KOI8-U 0xAE".into(), ev);
    ev.note(format!("selftest: {} checks, {} failures", n, fails));
    ev.sample(|| format!("{} model self-checks", n));
}
fn fold_ok(name: &str, c: u32, back: &[u32]) -> bool {
    // characters with duplicate index entries decode to the same scalar; nothing to fold in the model roundtrip except via the first pointer
    let _ = (name, c); back.len() == 1 && back[0] == c
}
