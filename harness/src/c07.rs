// C07 Worst-case buffer-length queries are sufficient in every reachable state.
// Monitor: bring a converter into a state by a replayed call history, query max_*_buffer_length* for
// exactly the remaining input, offer exactly that much, issue the call: OutputFull refutes the property.
// Overflow clause: near usize::MAX the queries must return None or stay monotone (a wrapped product is small).
use crate::alpha::*;
use crate::drive::*;
use crate::ev::*;
use crate::model::{EItem, M};
use crate::util::*;
use encoding_rs::*;
use std::panic::{catch_unwind, AssertUnwindSafe};

const QNAMES: [&str; 4] = ["decode_to_utf8+max_utf8_buffer_length", "decode_to_utf8_without_replacement+max_utf8_buffer_length_without_replacement", "decode_to_utf16+max_utf16_buffer_length", "decode_to_utf16_without_replacement+max_utf16_buffer_length"];

/// feed `prefix` into a fresh decoder following `cuts` (chunk ends), re-pushing unconsumed input; output discarded.
/// A cut value >= STOP_EARLY marks the "stop after one call" schedule: the last chunk is offered in ONE call and the
/// history stops there even if that call returned Malformed / left input unconsumed (the query then happens in states
/// such as ConvertingWithPendingBB or gb18030's pending ASCII); the unconsumed tail is returned and must be re-pushed.
pub const STOP_EARLY: usize = 1 << 20;
fn bring(enc: &'static Encoding, bom: Bom, prefix: &[u8], cuts: &[usize], ncalls: &mut u64) -> Option<(Decoder, usize)> {
    let mut d = new_decoder(enc, bom);
    let mut big = [0u16; 64];
    let mut prev = 0; let mut guard = 0;
    let stop_early = cuts.iter().any(|c| *c >= STOP_EARLY);
    let mut ends: Vec<usize> = cuts.iter().copied().filter(|c| *c < STOP_EARLY).collect(); ends.push(prefix.len());
    let nends = ends.len();
    let mut consumed_to = prefix.len();
    for (k, e) in ends.into_iter().enumerate() {
        let mut pos = prev;
        loop {
            guard += 1; if guard > 200 { return None; } *ncalls += 1;
            let (res, read, _) = d.decode_to_utf16_without_replacement(&prefix[pos..e], &mut big, false); pos += read;
            if res == DecoderResult::InputEmpty { break; }
            if stop_early && k + 1 == nends { consumed_to = pos; break; }
        }
        prev = e;
    }
    Some((d, consumed_to))
}

fn dec_probe(ev: &mut Ev, enc: &'static Encoding, bom: Bom, prefix: &[u8], cuts: &[usize], rest: &[u8], which: usize, last: bool, enumerated: bool) {
    let tr = ev.case();
    let r = catch_unwind(AssertUnwindSafe(|| {
        let mut calls = 0u64;
        let (mut d, consumed_to) = match bring(enc, bom, prefix, cuts, &mut calls) { Some(d) => d, None => return (None, calls, String::new(), String::new()) };
        // unconsumed tail of the prefix (stop-early schedule) is re-pushed in front of the remaining input
        let joined: Vec<u8>; let rest: &[u8] = if consumed_to < prefix.len() { joined = [&prefix[consumed_to..], rest].concat(); &joined } else { rest };
        let lc = life_cycle(&d);
        let mut pos = 0; let mut guard = 0; let mut full: Option<(usize, usize)> = None; let mut log = String::new();
        loop {
            guard += 1; if guard > 60 { break; }
            let k = rest.len() - pos; calls += 1;
            match which {
                0 => { let q = d.max_utf8_buffer_length(k).unwrap(); let mut dst = vec![0u8; q]; let (res, rd, wr, _) = d.decode_to_utf8(&rest[pos..], &mut dst, last); log.push_str(&format!("[q({})={} -> {:?} read={} written={}]", k, q, res, rd, wr)); if res == CoderResult::OutputFull { full = Some((k, q)); } break; }
                1 => { let q = d.max_utf8_buffer_length_without_replacement(k).unwrap(); let mut dst = vec![0u8; q]; let (res, rd, wr) = d.decode_to_utf8_without_replacement(&rest[pos..], &mut dst, last); log.push_str(&format!("[q({})={} -> {:?} read={} written={}]", k, q, res, rd, wr)); pos += rd; match res { DecoderResult::OutputFull => { full = Some((k, q)); break; } DecoderResult::InputEmpty => break, _ => {} } }
                2 => { let q = d.max_utf16_buffer_length(k).unwrap(); let mut dst = vec![0u16; q]; let (res, rd, wr, _) = d.decode_to_utf16(&rest[pos..], &mut dst, last); log.push_str(&format!("[q({})={} -> {:?} read={} written={}]", k, q, res, rd, wr)); if res == CoderResult::OutputFull { full = Some((k, q)); } break; }
                _ => { let q = d.max_utf16_buffer_length(k).unwrap(); let mut dst = vec![0u16; q]; let (res, rd, wr) = d.decode_to_utf16_without_replacement(&rest[pos..], &mut dst, last); log.push_str(&format!("[q({})={} -> {:?} read={} written={}]", k, q, res, rd, wr)); pos += rd; match res { DecoderResult::OutputFull => { full = Some((k, q)); break; } DecoderResult::InputEmpty => break, _ => {} } }
            }
        }
        (full, calls, lc, log)
    }));
    let desc = || format!("enc={} bom={:?} prefix={} fed-in-chunks-ending-at={:?} then remaining input={} last={} pairing={}", enc.name(), bom, hex(prefix), cuts, hex(rest), last, QNAMES[which]);
    ev.count("maxlen.decoder-probes");
    match r {
        Err(e) => ev.violation("maxlen", &format!("{}:panic:{}", crate::c01::family(enc), panic_message(&e).chars().take(40).collect::<String>()), format!("panic during query+call: {} | {}", panic_message(&e), desc())),
        Ok((full, calls, lc, log)) => {
            ev.api_calls += calls;
            if tr { println!("TRACE {} life_cycle={} {}", desc(), lc, log); }
            ev.state(H::new().s(crate::c01::family(enc)).s(&lc).u(which as u64).get(), || format!("{} state-at-query={} {}", crate::c01::family(enc), lc, which));
            if !prefix.is_empty() { if enumerated { ev.nontrivial_enum(); } else { ev.nontrivial_hash(H::new().s(enc.name()).b(prefix).b(rest).u(which as u64).u(last as u64).u(bom as u64).u(cuts.len() as u64).get()); } }
            if let Some((k, q)) = full {
                let nul = prefix.contains(&0) && (enc == UTF_16LE || enc == UTF_16BE);
                ev.violation("maxlen", &format!("{}:{}:OutputFull{}", crate::c01::family(enc), which, if nul { ":pending-nul" } else { "" }), format!("query for {} input bytes returned {} but the call with a {}-unit destination reported OutputFull | {} | {}", k, q, q, desc(), log));
            }
            ev.sample(|| format!("{} -> {}", desc(), log));
        }
    }
}

const EQNAMES: [&str; 4] = ["encode_from_utf8_without_replacement+max_buffer_length_from_utf8_without_replacement", "encode_from_utf16_without_replacement+max_buffer_length_from_utf16_without_replacement", "encode_from_utf8+max_buffer_length_from_utf8_if_no_unmappables", "encode_from_utf16+max_buffer_length_from_utf16_if_no_unmappables"];

fn enc_probe(ev: &mut Ev, enc: &'static Encoding, pre: &[u32], rest: &[u32], which: usize, last: bool, enumerated: bool) {
    let tr = ev.case();
    // for the if-no-unmappables pairings only texts the model says are fully mappable (in the state after `pre`) count
    if which >= 2 {
        let mut all = pre.to_vec(); all.extend_from_slice(rest);
        let items = M.encode(enc.output_encoding().name(), &all);
        // unmappables belonging to `rest`: compare counts with those of `pre` alone
        let pre_un = M.encode(enc.output_encoding().name(), pre).iter().filter(|i| matches!(i, EItem::U(_))).count();
        if items.iter().filter(|i| matches!(i, EItem::U(_))).count() != pre_un { ev.count("maxlen.encoder-skipped(has-unmappables)"); return; }
    }
    let pre_s = scalars_to_string(pre); let rest_s = scalars_to_string(rest); let r16: Vec<u16> = rest_s.encode_utf16().collect();
    let r = catch_unwind(AssertUnwindSafe(|| {
        let mut e = enc.new_encoder();
        let mut big = vec![0u8; pre_s.len() * 12 + 64];
        let _ = e.encode_from_utf8(&pre_s, &mut big, false);
        let pend = e.has_pending_state();
        let mut pos = 0; let mut guard = 0; let mut full: Option<(usize, usize)> = None; let mut log = String::new(); let mut calls = 1u64;
        loop {
            guard += 1; if guard > 60 { break; } calls += 1;
            match which {
                0 => { let k = rest_s.len() - pos; let q = e.max_buffer_length_from_utf8_without_replacement(k).unwrap(); let mut dst = vec![0u8; q]; let (res, rd, wr) = e.encode_from_utf8_without_replacement(&rest_s[pos..], &mut dst, last); log.push_str(&format!("[q({})={} -> {:?} read={} written={}]", k, q, res, rd, wr)); pos += rd; match res { EncoderResult::InputEmpty => break, EncoderResult::OutputFull => { full = Some((k, q)); break; } _ => {} } }
                1 => { let k = r16.len() - pos; let q = e.max_buffer_length_from_utf16_without_replacement(k).unwrap(); let mut dst = vec![0u8; q]; let (res, rd, wr) = e.encode_from_utf16_without_replacement(&r16[pos..], &mut dst, last); log.push_str(&format!("[q({})={} -> {:?} read={} written={}]", k, q, res, rd, wr)); pos += rd; match res { EncoderResult::InputEmpty => break, EncoderResult::OutputFull => { full = Some((k, q)); break; } _ => {} } }
                2 => { let k = rest_s.len(); let q = e.max_buffer_length_from_utf8_if_no_unmappables(k).unwrap(); let mut dst = vec![0u8; q]; let (res, rd, wr, _) = e.encode_from_utf8(&rest_s, &mut dst, last); log.push_str(&format!("[q({})={} -> {:?} read={} written={}]", k, q, res, rd, wr)); if res == CoderResult::OutputFull { full = Some((k, q)); } break; }
                _ => { let k = r16.len(); let q = e.max_buffer_length_from_utf16_if_no_unmappables(k).unwrap(); let mut dst = vec![0u8; q]; let (res, rd, wr, _) = e.encode_from_utf16(&r16, &mut dst, last); log.push_str(&format!("[q({})={} -> {:?} read={} written={}]", k, q, res, rd, wr)); if res == CoderResult::OutputFull { full = Some((k, q)); } break; }
            }
        }
        (full, calls, pend, log)
    }));
    let desc = || format!("enc={} text-already-encoded=[{}] then remaining text=[{}] last={} pairing={}", enc.name(), hex32(pre), hex32(rest), last, EQNAMES[which]);
    ev.count("maxlen.encoder-probes");
    match r {
        Err(e) => ev.violation("maxlen", &format!("enc:{}:panic", crate::c01::ofam(enc)), format!("panic during query+call: {} | {}", panic_message(&e), desc())),
        Ok((full, calls, pend, log)) => {
            ev.api_calls += calls * 2;
            if tr { println!("TRACE {} pending_state={} {}", desc(), pend, log); }
            ev.state(H::new().s(crate::c01::ofam(enc)).u(pend as u64).u(which as u64).u(7).get(), || format!("enc {} has_pending_state-at-query={} {}", crate::c01::ofam(enc), pend, which));
            if !rest.is_empty() { if enumerated { ev.nontrivial_enum(); } else { ev.nontrivial_hash(H::new().s(enc.name()).u32s(pre).u32s(rest).u(which as u64).u(last as u64).get()); } }
            if let Some((k, q)) = full { ev.violation("maxlen", &format!("enc:{}:{}:OutputFull", crate::c01::ofam(enc), which), format!("query for {} input units returned {} but the call with a {}-byte destination reported OutputFull | {} | {}", k, q, q, desc(), log)); }
        }
    }
}

/// smallest length for which a query answers None (binary search; None if it never does), so that the lengths right at the
/// overflow threshold of THIS formula in THIS state are sampled, not only lengths near usize::MAX / small divisors
fn first_none(q: &dyn Fn(usize) -> Option<usize>) -> Option<usize> {
    if q(usize::MAX).is_some() { return None; }
    let (mut lo, mut hi) = (1usize << 20, usize::MAX);
    if q(lo).is_none() { return Some(lo); }
    while hi - lo > 1 { let mid = lo + (hi - lo) / 2; if q(mid).is_none() { hi = mid; } else { lo = mid; } }
    Some(hi)
}
fn with_threshold(bigs: &[usize], q: &dyn Fn(usize) -> Option<usize>) -> Vec<usize> {
    let mut ks = bigs.to_vec();
    if let Some(t) = first_none(q) { for j in 0..96usize { ks.push(t.saturating_sub(j)); if let Some(x) = t.checked_add(j) { ks.push(x); } } }
    ks.sort(); ks.dedup(); ks
}
fn overflow(ev: &mut Ev, ctx: &Ctx) {
    let bigs: Vec<usize> = { let mut v = vec![1usize << 32, 1 << 40]; for base in [usize::MAX, usize::MAX / 2, usize::MAX / 3, usize::MAX / 4, usize::MAX / 6, usize::MAX / 10, 1usize << 63, 1usize << 62] { for k in 0..48usize { v.push(base.saturating_sub(k)); if let Some(x) = base.checked_add(k) { v.push(x); } } } v.sort(); v.dedup(); v };
    let mut r = ctx.rng(71);
    let rounds = ctx.budget(4000, 60000);
    for _ in 0..rounds {
        let enc = ALL[r.below(40)]; let bom = BOMS[r.below(3)];
        let alpha = byte_alpha(enc);
        let prefix: Vec<u8> = (0..r.below(5)).map(|_| if r.chance(4) { *r.pick(&BOM_ALPHA) } else { *r.pick(&alpha) }).collect();
        let cuts: Vec<usize> = if r.chance(2) { (1..prefix.len()).collect() } else { vec![] };
        ev.case();
        let res = catch_unwind(AssertUnwindSafe(|| {
            let mut nc = 0u64;
            let d = match bring(enc, bom, &prefix, &cuts, &mut nc) { Some(d) => d.0, None => return vec![] };
            let mut bad = vec![];
            for (qn, q) in [("max_utf8_buffer_length", &(|d: &Decoder, k: usize| d.max_utf8_buffer_length(k)) as &dyn Fn(&Decoder, usize) -> Option<usize>), ("max_utf8_buffer_length_without_replacement", &|d: &Decoder, k: usize| d.max_utf8_buffer_length_without_replacement(k)), ("max_utf16_buffer_length", &|d: &Decoder, k: usize| d.max_utf16_buffer_length(k))] {
                let mut prev: Option<usize> = q(&d, 1 << 20);
                let ks = with_threshold(&bigs, &|k| q(&d, k));
                for k in ks.iter() { if let Some(v) = q(&d, *k) { if let Some(p) = prev { if v < p { bad.push(format!("{}({}) = {} is smaller than the value {} for a smaller length", qn, k, v, p)); } } prev = Some(v); } }
            }
            bad
        }));
        ev.count_n("maxlen.overflow-queries", 3 * bigs.len() as u64); ev.api_calls += 3 * bigs.len() as u64;
        ev.nontrivial_hash(H::new().s(enc.name()).b(&prefix).u(bom as u64).u(cuts.len() as u64).u(99).get());
        match res { Err(e) => ev.violation("maxlen-overflow", &format!("{}:panic", crate::c01::family(enc)), format!("query panicked (arithmetic overflow?): {} | enc={} prefix={}", panic_message(&e), enc.name(), hex(&prefix))),
            Ok(bad) => for b in bad { ev.violation("maxlen-overflow", &format!("{}:wrapped", crate::c01::family(enc)), format!("{} | enc={} bom={:?} prefix={}", b, enc.name(), bom, hex(&prefix))); } }
    }
    for &enc in ALL.iter() {
        ev.case();
        let res = catch_unwind(AssertUnwindSafe(|| {
            let mut bad = vec![];
            for pre in ["", "\u{3042}", "\u{A5}"] {
                let mut e = enc.new_encoder(); let mut big = [0u8; 64]; let _ = e.encode_from_utf8(pre, &mut big, false);
                for (qn, q) in [("max_buffer_length_from_utf8_without_replacement", &(|e: &Encoder, k: usize| e.max_buffer_length_from_utf8_without_replacement(k)) as &dyn Fn(&Encoder, usize) -> Option<usize>), ("max_buffer_length_from_utf16_without_replacement", &|e: &Encoder, k: usize| e.max_buffer_length_from_utf16_without_replacement(k)), ("max_buffer_length_from_utf8_if_no_unmappables", &|e: &Encoder, k: usize| e.max_buffer_length_from_utf8_if_no_unmappables(k)), ("max_buffer_length_from_utf16_if_no_unmappables", &|e: &Encoder, k: usize| e.max_buffer_length_from_utf16_if_no_unmappables(k))] {
                    let mut prev = q(&e, 1 << 20);
                    let ks = with_threshold(&bigs, &|k| q(&e, k));
                    for k in ks.iter() { if let Some(v) = q(&e, *k) { if let Some(p) = prev { if v < p { bad.push(format!("{}({}) = {} is smaller than the value {} for a smaller length (encoder state after {:?})", qn, k, v, p, pre)); } } prev = Some(v); } }
                }
            }
            bad
        }));
        ev.count_n("maxlen.overflow-queries", 12 * bigs.len() as u64);
        match res { Err(e) => ev.violation("maxlen-overflow", &format!("enc:{}:panic", crate::c01::ofam(enc)), format!("query panicked: {} | enc={}", panic_message(&e), enc.name())),
            Ok(bad) => for b in bad { ev.violation("maxlen-overflow", &format!("enc:{}:wrapped", crate::c01::ofam(enc)), format!("{} | enc={}", b, enc.name())); } }
    }
}

pub fn run(ctx: &Ctx, ev: &mut Ev) {
    let th = ctx.thorough();
    let tiny = !ctx.native();
    // (a) decoders: all prefixes over the family alphabet (NUL included) x feeding schedules x BOM modes x remainders
    if ctx.want("dec") {
        // quick: reduced alphabets, prefixes <= 3 (UTF-16: 4). thorough: full alphabets with prefixes <= 3 AND reduced alphabets with prefixes <= 4
        let passes: Vec<(bool, usize)> = if tiny { vec![(false, 2)] } else if th { vec![(true, 3), (false, 4)] } else { vec![(false, 3)] };
        for &(full, pm) in passes.iter() { for &enc in families().iter() {
            let alpha = if full { byte_alpha(enc) } else { byte_alpha_small(enc) };
            let pmax = if !tiny && (enc == UTF_16LE || enc == UTF_16BE) { 4 } else { pm };
            let prefixes = strings_over(&alpha, pmax);
            let rests = strings_over(&alpha, if tiny { 1 } else { 2 });
            for prefix in prefixes.iter() {
                if !ev.mine() { continue; }
                for &bom in [Bom::Off, Bom::Sniff].iter() {
                    // feeding schedules: whole, byte per call, (thorough) every cut set
                    let mut scheds: Vec<Vec<usize>> = vec![vec![], (1..prefix.len()).collect()];
                    // stop after one call on the whole prefix / on its last byte (query right after a Malformed result)
                    if !prefix.is_empty() { scheds.push(vec![STOP_EARLY]); if prefix.len() >= 2 { scheds.push(vec![prefix.len() - 1, STOP_EARLY]); let mut v: Vec<usize> = (1..prefix.len()).collect(); v.push(STOP_EARLY); scheds.push(v); } }
                    if th && prefix.len() >= 3 { for mask in 1..(1u32 << (prefix.len() - 1)) - 1 { scheds.push((1..prefix.len()).filter(|i| mask & (1 << (i - 1)) != 0).collect()); } }
                    if prefix.len() < 2 { scheds.retain(|c| c.is_empty() || c == &vec![STOP_EARLY]); }
                    for cuts in scheds.iter() { for which in 0..4 { for last in [false, true] { for rest in rests.iter() {
                        dec_probe(ev, enc, bom, prefix, cuts, rest, which, last, true);
                    } } } }
                }
            }
        } }
        // BOM-look-alike prefixes for every encoding (withheld bytes), all three modes
        for &enc in ALL.iter() {
            if !ev.mine() { continue; }
            for prefix in strings_over(&BOM_ALPHA, 3).iter() { for &bom in BOMS.iter() { for cuts in [vec![], (1..prefix.len()).collect::<Vec<usize>>(), vec![STOP_EARLY], { let mut v: Vec<usize> = (1..prefix.len()).collect(); v.push(STOP_EARLY); v }, vec![2.min(prefix.len()), STOP_EARLY]] { if cuts.is_empty() && prefix.len() > 1 && tiny { continue; } for which in 0..4 { for last in [false, true] { for rest in [&[][..], &[0x41], &[0xBF], &[0xBB, 0xBF], &[0xFE, 0x41], &[0x80, 0x80]] {
                dec_probe(ev, enc, bom, prefix, &cuts, rest, which, last, true);
            } } } } } }
        }
    }
    // (b) longer sampled remainders (up to 64 bytes) after random prefixes
    if ctx.want("decrandom") {
        let mut r = ctx.rng(7);
        let n = ctx.budget(200_000, 6_000_000);
        for _ in 0..n {
            let enc = ALL[r.below(40)]; let alpha = byte_alpha(enc);
            let prefix: Vec<u8> = (0..r.below(7)).map(|_| if r.chance(5) { *r.pick(&BOM_ALPHA) } else { *r.pick(&alpha) }).collect();
            let mut cuts: Vec<usize> = match r.below(3) { 0 => vec![], 1 => (1..prefix.len()).collect(), _ => { let mut c: Vec<usize> = (0..r.below(3)).map(|_| r.below(prefix.len() + 1)).collect(); c.sort(); c } };
            if r.chance(3) { cuts.push(STOP_EARLY); }
            let rest = crate::hist::random_stream(&mut r, enc, 2); let rest = &rest[..rest.len().min(64)];
            dec_probe(ev, enc, BOMS[r.below(3)], &prefix, &cuts, rest, r.below(4), r.chance(2), false);
        }
    }
    // (c) encoders: all prefix texts <= 2 and remaining texts <= 3 (quick: 2) over the scalar alphabet
    if ctx.want("enc") {
        let alpha: Vec<u32> = if th { SCALARS.to_vec() } else { SCALARS_SMALL.to_vec() };
        let pres = strings_over(&alpha, if tiny { 1 } else { 2 }); let rests = strings_over(&alpha, if tiny { 1 } else if th { 3 } else { 2 });
        for &enc in encoder_families().iter() { for pre in pres.iter() { if !ev.mine() { continue; } for rest in rests.iter() { for which in 0..4 { for last in [false, true] { enc_probe(ev, enc, pre, rest, which, last, true); } } } } }
        let mut r = ctx.rng(8);
        let n = ctx.budget(100_000, 3_000_000);
        for _ in 0..n {
            let enc = ALL[r.below(40)];
            let pre: Vec<u32> = (0..r.below(4)).map(|_| *r.pick(&SCALARS_WIDE)).collect();
            let rest = crate::hist::random_text(&mut r, 2, false); let rest = &rest[..rest.len().min(48)];
            enc_probe(ev, enc, &pre, rest, r.below(4), r.chance(2), false);
        }
    }
    if ctx.want("overflow") { overflow(ev, ctx); }
}
