// C18 Written output is fully determined by the input, never by the buffer's old bytes.
// Monitor: every history is executed three times on fresh converters with the destination pre-filled
// with 0x00, 0xFF and 0xA5 (three different valid fillers for &mut str); all return tuples and written
// prefixes must be identical call by call. String/Vec/Cow sinks with genuinely uninitialised capacity are
// additionally run under memcheck and the UB interpreter, where the harness validates (branches on) every
// exposed byte so that a byte that was never stored is reported by the tool.
use crate::alpha::*;
use crate::drive::*;
use crate::ev::*;
use crate::hist::*;
use crate::memfn::*;
use crate::util::*;
use encoding_rs::*;

const FILLS: [u8; 3] = [0x00, 0xFF, 0xA5];

pub fn check_dec(drv: &mut Driver, ev: &mut Ev, case: &DecCase, enumerated: bool) {
    let tr = ev.case();
    let mut runs: Vec<DecOut> = vec![];
    for (k, f) in FILLS.iter().enumerate() { let mut c = case.clone(); c.fill = *f; c.filler = (case.filler + k) % 3 + 4 * ((case.filler / 4 + k) % 4); runs.push(drv.run_dec(&c, ev)); }
    ev.count("fill-diff.decode-histories");
    if case.stream.iter().any(|b| *b >= 0x80) { if enumerated { ev.nontrivial_enum(); } else { ev.nontrivial_hash(case.hash()); } }
    if tr { for (k, r) in runs.iter().enumerate() { println!("TRACE fill={:02x} {} | calls: {} | items: [{}]", FILLS[k], case.describe(), fmt_calls(&r.calls), fmt_items(&r.items)); } }
    { let nfail = runs.iter().filter(|r| r.fail_of(&[FailKind::Panic, FailKind::Stuck]).is_some()).count();
      if nfail == 3 { ev.count("fill-diff.aborted(panic/stuck with every fill: C06/C08)"); return; }
      if nfail > 0 { ev.violation("fill-diff", &format!("decode:{}:{:?}:completes-for-some-fills-only", crate::c01::family(case.enc), case.sink), format!("the history panics / gets stuck for {} of the three destination fill patterns only | {}", nfail, case.describe())); return; } }
    for k in 1..3 {
        if runs[k].calls != runs[0].calls || runs[k].items != runs[0].items {
            let ci = runs[k].calls.iter().zip(runs[0].calls.iter()).position(|(a, b)| a != b).unwrap_or(0);
            ev.violation("fill-diff", &format!("decode:{}:{:?}", crate::c01::family(case.enc), case.sink), format!("results depend on the destination's old contents: with fill {:02x} call {} is {} / items [{}], with fill 00 it is {} / items [{}] | {}", FILLS[k], ci, fmt_calls(&runs[k].calls[ci..(ci + 1).min(runs[k].calls.len())]), fmt_items(&runs[k].items), fmt_calls(&runs[0].calls[ci..(ci + 1).min(runs[0].calls.len())]), fmt_items(&runs[0].items), case.describe()));
            return;
        }
    }
    ev.state(H::new().s(crate::c01::family(case.enc)).u(case.sink as u64).u(case.repl as u64).get(), || format!("decode {} {:?} repl={}", crate::c01::family(case.enc), case.sink, case.repl));
    ev.sample(|| format!("{} -> identical for fills 00/ff/a5: {}", case.describe(), fmt_calls(&runs[0].calls)));
}
pub fn check_enc(drv: &mut Driver, ev: &mut Ev, case: &EncCase, enumerated: bool) {
    let tr = ev.case();
    let mut runs: Vec<EncOut> = vec![];
    for f in FILLS.iter() { let mut c = case.clone(); c.fill = *f; runs.push(drv.run_enc(&c, ev)); }
    ev.count("fill-diff.encode-histories");
    if case.atoms.iter().any(|a| *a >= 0x80) { if enumerated { ev.nontrivial_enum(); } else { ev.nontrivial_hash(case.hash()); } }
    if tr { for (k, r) in runs.iter().enumerate() { println!("TRACE fill={:02x} {} | calls: {} | bytes: {}", FILLS[k], case.describe(), fmt_calls(&r.calls), hex(&r.bytes)); } }
    if runs.iter().any(|r| r.fail_of(&[FailKind::Panic, FailKind::Stuck]).is_some()) { ev.count("fill-diff.aborted(panic/stuck: C06/C08)"); return; }
    for k in 1..3 {
        if runs[k].calls != runs[0].calls || runs[k].bytes != runs[0].bytes || runs[k].items != runs[0].items {
            ev.violation("fill-diff", &format!("encode:{}:{}", crate::c01::ofam(case.enc), if case.src16 { "utf16" } else { "utf8" }), format!("results depend on the destination's old contents: fill {:02x} gives {} / {}, fill 00 gives {} / {} | {}", FILLS[k], hex(&runs[k].bytes), fmt_calls(&runs[k].calls), hex(&runs[0].bytes), fmt_calls(&runs[0].calls), case.describe()));
            return;
        }
    }
    ev.state(H::new().s(crate::c01::ofam(case.enc)).u(case.src16 as u64).u(case.repl as u64).u(3).get(), || format!("encode {} src16={} repl={}", crate::c01::ofam(case.enc), case.src16, case.repl));
}
pub fn check_mem(drv: &mut Driver, ev: &mut Ev, f: MemFn, src: &Src, dl: usize, sa: usize, da: usize, enumerated: bool) {
    let tr = ev.case(); ev.api_calls += 3;
    let exp = expect(f, src, dl);
    if exp.panics || matches!(f.dst_kind(), DstKind::Cow | DstKind::InPlace) { return; }
    let outs: Vec<MemOut> = FILLS.iter().enumerate().map(|(k, fl)| drv.run_mem(f, src, dl, *fl, sa, da, k)).collect();
    ev.count("fill-diff.mem-calls");
    if src.len(f) > 0 { if enumerated { ev.nontrivial_enum(); } else { ev.nontrivial_hash(H::new().s(f.name()).b(&src.bytes).u16s(&src.units).u(dl as u64).get()); } }
    if tr { for (k, o) in outs.iter().enumerate() { println!("TRACE fill={:02x} {} {} dst_len={} -> ret={:?} dst8={} dst16=[{}]", FILLS[k], f.name(), src.describe(f), dl, o.ret, hexs(&o.dst8), hex16(&o.dst16[..o.dst16.len().min(40)])); } }
    if outs.iter().any(|o| o.panic.is_some()) { ev.count("fill-diff.aborted(panic: C06)"); return; }
    // written prefix: from the return value, or the whole source length where the function returns nothing
    let w = |o: &MemOut| -> usize { if o.ret.1 >= 0 { o.ret.1 as usize } else { 0 } };
    for k in 1..3 {
        let (a, b) = (&outs[0], &outs[k]);
        let same = a.ret == b.ret && { let n = w(a); if f.dst_kind() == DstKind::D16 { a.dst16[..n.min(a.dst16.len())] == b.dst16[..n.min(b.dst16.len())] } else { a.dst8[..n.min(a.dst8.len())] == b.dst8[..n.min(b.dst8.len())] } };
        if !same { ev.violation("fill-diff", &format!("mem::{}", f.name()), format!("results depend on the destination's old contents: fill {:02x} -> {:?} {} [{}]; fill 00 -> {:?} {} [{}] | {} dst_len={}", FILLS[k], b.ret, hexs(&b.dst8), hex16(&b.dst16[..b.dst16.len().min(32)]), a.ret, hexs(&a.dst8), hex16(&a.dst16[..a.dst16.len().min(32)]), src.describe(f), dl)); return; }
    }
}

/// String / Vec / Cow sinks with genuinely uninitialised capacity: everything exposed is validated and
/// folded into a hash (branches on every byte), so memcheck / the interpreter see any byte that was never stored.
pub fn uninit_sinks(ev: &mut Ev, r: &mut Rng, n: u64, small: bool) -> u64 {
    let mut h = H::new();
    for _ in 0..n {
        let enc = ALL[r.below(40)];
        let bytes = random_stream(r, enc, if small { 2 } else { 4 }); let bytes = &bytes[..bytes.len().min(if small { 40 } else { 300 })];
        ev.case(); ev.count("uninit.histories");
        let fold = |h: &mut H, b: &[u8]| { let mut odd = 0u64; for x in b { if *x & 1 == 1 { odd += 1; } } h.b(b).u(odd); };
        let mut d = enc.new_decoder_without_bom_handling(); let mut out = String::new(); let mut pos = 0; let mut guard = 0;
        loop { guard += 1; if guard > 2000 { break; } let mut s = String::with_capacity(8 + r.below(40)); let (res, read, _) = d.decode_to_string(&bytes[pos..], &mut s, true); ev.api_calls += 1; pos += read; assert!(std::str::from_utf8(s.as_bytes()).is_ok()); fold(&mut h, s.as_bytes()); out.push_str(&s); if res == CoderResult::InputEmpty { break; } }
        let mut d = enc.new_decoder_without_bom_handling(); let mut s = String::with_capacity(d.max_utf8_buffer_length_without_replacement(bytes.len()).unwrap()); let _ = d.decode_to_string_without_replacement(bytes, &mut s, true); ev.api_calls += 1; fold(&mut h, s.as_bytes());
        let mut e = enc.new_encoder(); let mut pos = 0; let mut guard = 0;
        loop { guard += 1; if guard > 2000 { break; } let mut v: Vec<u8> = Vec::with_capacity(14 + r.below(40)); let (res, read, _) = e.encode_from_utf8_to_vec(&out[pos..], &mut v, true); ev.api_calls += 1; pos += read; fold(&mut h, &v); if res == CoderResult::InputEmpty { break; } }
        let mut e = enc.new_encoder(); let mut v: Vec<u8> = Vec::with_capacity(e.max_buffer_length_from_utf8_without_replacement(out.len()).unwrap()); let _ = e.encode_from_utf8_to_vec_without_replacement(&out, &mut v, true); ev.api_calls += 1; fold(&mut h, &v);
        let (c, _, _) = enc.decode(bytes); fold(&mut h, c.as_bytes()); let (c2, _, _) = enc.encode(&out); fold(&mut h, &c2);
        if let Some(c3) = enc.decode_without_bom_handling_and_without_replacement(bytes) { fold(&mut h, c3.as_bytes()); }
        let l = encoding_rs::mem::decode_latin1(bytes); fold(&mut h, l.as_bytes()); let b = encoding_rs::mem::encode_latin1_lossy(&l); fold(&mut h, &b);
        ev.api_calls += 5;
        ev.nontrivial_hash(H::new().s(enc.name()).b(bytes).u(18).get());
    }
    h.get()
}

pub fn run(ctx: &Ctx, ev: &mut Ev) {
    let mut drv = Driver::new();
    let th = ctx.thorough();
    let tool = ctx.mode == Mode::Miri || ctx.mode == Mode::Vg;
    if ctx.want("uninit") {
        let mut r = ctx.rng(181);
        let n = if ctx.mode == Mode::Miri { ctx.budget(0, 0).max(if th { 24 } else { 6 }) } else { ctx.budget(40_000, 1_000_000) };
        let hsh = uninit_sinks(ev, &mut r, n, tool);
        ev.note(format!("uninit-sink transcript hash {:016x}", hsh));
    }
    if tool { return; }
    if ctx.want("dec") {
        let sp = DecSpace { encs: families(), small_alpha: !th, maxlen: 3, utf16_extra: 1, boms: vec![Bom::Off, Bom::Sniff], sinks: vec![Sink::U8, Sink::U16, Sink::Str, Sink::String], repls: vec![true, false],
            cap_offsets: vec![vec![0], vec![1], vec![3], vec![0, 6]], last_seps: vec![false], stride: if th { 1 } else { 1 }, prefixes: vec![], fills: vec![0], token_streams: (2, 2) };
        ev.note(format!("dec: {}", sp.describe()));
        enum_dec(ctx, ev, &sp, |case, _ng, ev| check_dec(&mut drv, ev, case, true));
    }
    if ctx.want("enc") {
        let mut alpha: Vec<u32> = if th { SCALARS.to_vec() } else { SCALARS_SMALL.to_vec() }; alpha.push(0xD800); alpha.push(0x2603);
        let sp = EncSpace { encs: encoder_families(), alpha, maxlen: if th { 3 } else { 2 }, src16s: vec![false, true], vec_sinks: vec![false], repls: vec![true, false],
            cap_offsets: vec![vec![0], vec![1], vec![2], vec![5], vec![0, 10]], last_seps: vec![false], stride: 1, fills: vec![0], per_encoder: true };
        ev.note(format!("enc: {}", sp.describe()));
        enum_enc(ctx, ev, &sp, |case, _ng, ev| check_enc(&mut drv, ev, case, true));
    }
    if ctx.want("random") {
        let mut r = ctx.rng(18);
        let n = ctx.budget(200_000, 6_000_000);
        for i in 0..n {
            let enc = ALL[r.below(40)];
            match r.below(3) {
                0 => {
                    let stream = random_stream(&mut r, enc, if i % 40 == 0 { 20 } else { 4 }); let stream = &stream[..stream.len().min(1500)];
                    let sink = SINKS[r.below(4)]; let cuts = random_cuts(&mut r, stream.len()); let caps = random_caps(&mut r, dec_min_cap(sink), true);
                    let case = DecCase { enc, bom: BOMS[r.below(3)], sink, repl: r.chance(2), stream, cuts: &cuts, last_sep: r.chance(2), caps: &caps, fill: 0, src_align: r.below(16), dst_align: r.below(16), filler: r.below(16) };
                    check_dec(&mut drv, ev, &case, false);
                }
                1 => {
                    let src16 = r.chance(2); let t = random_text(&mut r, if i % 40 == 0 { 12 } else { 3 }, src16); let t = &t[..t.len().min(600)];
                    if t.windows(2).any(|w| (0xD800..0xDC00).contains(&w[0]) && (0xDC00..0xE000).contains(&w[1])) { continue; }
                    let repl = r.chance(2); let cuts = random_cuts(&mut r, t.len()); let caps = random_caps(&mut r, enc_min_cap(repl), true);
                    let case = EncCase { enc, src16, vec_sink: false, repl, atoms: t, cuts: &cuts, last_sep: r.chance(2), caps: &caps, fill: 0, src_align: r.below(16), dst_align: r.below(16) };
                    check_enc(&mut drv, ev, &case, false);
                }
                _ => {
                    let f = ALL_MEM[r.below(ALL_MEM.len())];
                    let src = gen_src(&mut r, f.src_kind(), if i % 100 == 0 { 40 } else { 4 });
                    let dl = gen_dst_len(&mut r, f, src.len(f));
                    check_mem(&mut drv, ev, f, &src, dl, r.below(16), r.below(16), false);
                }
            }
        }
    }
    // mem: systematic (one interesting unit at every position, every destination length near the need)
    if ctx.want("memsweep") {
        for len in 0..=(if th { 100 } else { 70 }) {
            if !ev.mine() { continue; }
            for pos in 0..len.max(1) { for (k, u) in [0x00E9u16, 0x4E00, 0xD83D, 0xDC00].iter().enumerate() {
                let mut units: Vec<u16> = (0..len).map(|i| 0x61 + (i % 26) as u16).collect(); if len > 0 { units[pos] = *u; }
                let s16 = Src { bytes: vec![], units };
                let bytes: Vec<u8> = (0..len).map(|i| if i == pos { [0xE9u8, 0x80, 0xFF, 0xC3][k] } else { 0x61 + (i % 26) as u8 }).collect();
                let s8 = Src { bytes, units: vec![] };
                for f in [Utf16ToUtf8Partial, Utf16ToStrPartial, Utf16ToUtf8, CopyBasicLatinToAscii] { for dl in [pos, pos + 1, pos + 2, pos + 3, len, len + 2, f.sufficient(len)] { check_mem(&mut drv, ev, f, &s16, dl, (pos + k) % 16, (len + k) % 16, true); } }
                for f in [Latin1ToUtf8Partial, Latin1ToStrPartial, Latin1ToUtf16, Utf8ToUtf16, Utf8ToUtf16NoRepl, CopyAsciiToAscii, CopyAsciiToBasicLatin] { for dl in [pos, pos + 1, pos + 2, len, len + 1, f.sufficient(len)] { check_mem(&mut drv, ev, f, &s8, dl, (pos + k) % 16, (len + k) % 16, true); } }
            } }
        }
    }
}
