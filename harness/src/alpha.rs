// Class-representative alphabets (DESIGN.md section 4 / Appendix B). 0x00 / U+0000 is in every alphabet.
use encoding_rs::*;

/// Byte alphabet per decoder family: one or two representatives of every byte class the decoder distinguishes.
pub fn byte_alpha(enc: &'static Encoding) -> Vec<u8> {
    match enc.name() {
        "UTF-8" => vec![0x00, 0x41, 0x80, 0xBF, 0xC2, 0xE0, 0xA0, 0xED, 0xF0, 0x90, 0xF4, 0xFF],
        "UTF-16LE" | "UTF-16BE" => vec![0x00, 0x41, 0xD8, 0xDB, 0xDC, 0xDF, 0xFF, 0xFE, 0x20],
        "Big5" => vec![0x00, 0x41, 0x40, 0x7E, 0x80, 0x81, 0x87, 0xA1, 0xFE, 0xFF, 0x62, 0x88],
        "EUC-KR" => vec![0x00, 0x41, 0x40, 0x5A, 0x80, 0x81, 0xA1, 0xC8, 0xFE, 0xFF],
        "Shift_JIS" => vec![0x00, 0x41, 0x40, 0x5C, 0x7F, 0x80, 0x81, 0xA0, 0xA1, 0xE0, 0xFC, 0xFF],
        "EUC-JP" => vec![0x00, 0x41, 0x7E, 0x80, 0x8E, 0x8F, 0xA0, 0xA1, 0xDF, 0xE0, 0xFE, 0xFF],
        "gb18030" | "GBK" => vec![0x00, 0x41, 0x30, 0x39, 0x40, 0x7F, 0x80, 0x81, 0x84, 0x90, 0xFE, 0xFF],
        "ISO-2022-JP" => vec![0x00, 0x1B, 0x24, 0x28, 0x42, 0x4A, 0x49, 0x40, 0x21, 0x7E, 0x0E, 0x80],
        "replacement" => vec![0x00, 0x41, 0x80],
        "x-user-defined" => vec![0x00, 0x20, 0x41, 0x7F, 0x80, 0xA0, 0xFF],
        _ => {
            // single-byte: ASCII classes, 0x80, 0xFF, a mapped and (where one exists) an unmapped high byte
            let mut v = vec![0x00u8, 0x20, 0x41, 0x7F, 0x80, 0xFF, 0xE9, 0xA0];
            let m = crate::model::single(enc.name());
            if let Some(u) = (0..128usize).find(|i| m.ix.get(*i).is_none()) { v.push(0x80 + u as u8); }
            v.sort(); v.dedup(); v
        }
    }
}
/// Reduced alphabets (6-8 symbols) used where the history space would otherwise explode.
pub fn byte_alpha_small(enc: &'static Encoding) -> Vec<u8> {
    match enc.name() {
        "UTF-8" => vec![0x00, 0x41, 0x80, 0xC2, 0xE0, 0xA0, 0xF0, 0x90],
        "UTF-16LE" | "UTF-16BE" => vec![0x00, 0x41, 0xD8, 0xDC, 0xFF, 0xFE],
        "Big5" => vec![0x00, 0x41, 0x80, 0x81, 0xA1, 0xFE, 0x88, 0x62],
        "EUC-KR" => vec![0x00, 0x41, 0x80, 0x81, 0xA1, 0xFE, 0xFF],
        "Shift_JIS" => vec![0x00, 0x41, 0x80, 0x81, 0xA1, 0xE0, 0xFC, 0xFF],
        "EUC-JP" => vec![0x00, 0x41, 0x8E, 0x8F, 0xA1, 0xFE, 0xFF],
        "gb18030" | "GBK" => vec![0x00, 0x41, 0x30, 0x80, 0x81, 0x84, 0xFE, 0xFF],
        "ISO-2022-JP" => vec![0x00, 0x1B, 0x24, 0x28, 0x42, 0x4A, 0x21, 0x80],
        "replacement" => vec![0x00, 0x41, 0x80],
        _ => vec![0x00, 0x41, 0x80, 0xE9, 0xFF],
    }
}
/// BOM-layer prefix alphabet
pub const BOM_ALPHA: [u8; 7] = [0xEF, 0xBB, 0xBF, 0xFE, 0xFF, 0x41, 0x80];
/// hostile byte pool for random streams (union of class representatives of all families)
pub const HOSTILE: [u8; 34] = [0x00, 0x41, 0x20, 0x30, 0x39, 0x40, 0x7E, 0x7F, 0x80, 0x81, 0x8E, 0x8F, 0xA1, 0xA0, 0xE0, 0xEF, 0xBB, 0xBF, 0xFE, 0xFF, 0x1B, 0x24, 0x28, 0x42, 0x4A, 0x49, 0xD8, 0xDC, 0xF0, 0x90, 0xC2, 0x0E, 0xC8, 0xED];

/// ISO-2022-JP token alphabet: whole escapes count as one symbol
pub fn iso2022jp_tokens() -> Vec<&'static [u8]> {
    vec![b"\x1B(B", b"\x1B(J", b"\x1B(I", b"\x1B$@", b"\x1B$B", b"\x1B", b"\x1B$", b"\x1B(", b"\x1B$A", b"\x00", b"A", b"\\", b"\x21", b"\x21\x21", b"\x24", b"\x28", b"\x42", b"\x5F", b"\x60", b"\x7E", b"\x0E", b"\x0F", b"\x80", b"\x0A"]
}
/// gb18030 tokens: whole four-byte sequences and fragments
pub fn gb18030_tokens() -> Vec<&'static [u8]> {
    vec![b"\x00", b"A", b"0", b"9", b"\x80", b"\x81", b"\xFE", b"\xFF", b"\x81\x30", b"\x81\x30\x81", b"\x81\x30\x81\x30", b"\x84\x31\xA4\x39", b"\x84\x31\xA5\x30", b"\x90\x30\x81\x30", b"\xE3\x32\x9A\x35", b"\xE3\x32\x9A\x36", b"\x81\x40", b"\xA1\xA1", b"\xA2\xE3", b"\x81\x7F", b"\xFE\xFE"]
}

/// Scalar alphabet for encoder histories (all encoders share it; each one meets mappable,
/// unmappable, folded, state-switching and astral characters in it).
pub const SCALARS: [u32; 25] = [0x00, 0x41, 0x3B, 0x5C, 0x7E, 0x0E, 0x1B, 0x80, 0xA5, 0xE9, 0x203E, 0x2212, 0x3042, 0x4E00, 0xFF71, 0xAC00, 0x20AC, 0xE5E5, 0xE78D, 0x2550, 0xF780, 0xFFFD, 0x10000, 0x1F4A9, 0x2008A];
/// (U+10000 = 65536 and U+1F4A9 = 128169 are in different NCR length classes)
pub const SCALARS_SMALL: [u32; 13] = [0x00, 0x41, 0x5C, 0x1B, 0xA5, 0xE9, 0x3042, 0x4E00, 0xFF71, 0x20AC, 0xF780, 0x10000, 0x1F4A9];
/// includes a scalar of every NCR digit-count class (2..7 digits) and both sides of 65536/100000/1000000
/// ... and holes inside the ideograph / kana arms of the legacy encoders (U+4E02, U+3094, U+9FA1, U+3400, U+2F800)
pub const SCALARS_WIDE: [u32; 51] = [0x4E02, 0x3094, 0x9FA1, 0x3400, 0x2F800, 0x10000, 0x1869F, 0x186A0, 0xF423F, 0xF4240, 0x3E8, 0x00, 0x41, 0x20, 0x2C, 0x3B, 0x5C, 0x7E, 0x7F, 0x0E, 0x0F, 0x1B, 0x80, 0xA5, 0xE9, 0xFF, 0x100, 0x203E, 0x2212, 0x20AC, 0x3042, 0x30A2, 0x4E00, 0x4EDD, 0xFF61, 0xFF71, 0xFF9F, 0xAC00, 0xE5E5, 0xE7C7, 0xE78D, 0xE864, 0x2550, 0x5341, 0xF780, 0xF7FF, 0xFFFD, 0x1F4A9, 0x2008A, 0x10FFFF, 0x0411];
/// lone surrogate atoms for UTF-16 sources
pub const LONE: [u32; 4] = [0xD800, 0xDBFF, 0xDC00, 0xDFFF];

pub const RUNS: [usize; 16] = [0, 1, 2, 7, 15, 16, 17, 31, 32, 33, 47, 48, 63, 64, 65, 100];

/// Encoders that exist (distinct output encodings with their own encoder) - one per implementation
pub fn encoder_families() -> Vec<&'static Encoding> {
    vec![BIG5, EUC_KR, SHIFT_JIS, EUC_JP, GB18030, GBK, ISO_2022_JP, UTF_8, WINDOWS_1252, KOI8_U, X_USER_DEFINED, UTF_16LE, WINDOWS_1255]
}

/// Script ranges the legacy encoders treat in separate arms (kana, ideographs, hangul, compatibility,
/// full-/half-width forms, PUA, astral ...). For each range and each encoder the model tells which
/// scalars are mappable, so every encoder gets a mappable AND an unmappable representative per arm.
pub const SCRIPT_RANGES: [(u32, u32); 24] = [(0x80, 0xFF), (0x100, 0x24F), (0x370, 0x3FF), (0x400, 0x4FF), (0x590, 0x6FF), (0xE00, 0xE7F), (0x2000, 0x206F), (0x2100, 0x22FF),
    (0x2460, 0x27BF), (0x3000, 0x303F), (0x3040, 0x309F), (0x30A0, 0x30FF), (0x3100, 0x33FF), (0x4E00, 0x9FFF), (0xAC00, 0xD7A3), (0xE000, 0xF8FF), (0xF900, 0xFAFF), (0xFE30, 0xFE6F),
    (0xFF00, 0xFF60), (0xFF61, 0xFF9F), (0xFFA0, 0xFFEF), (0x10000, 0x1FFFF), (0x20000, 0x2FFFF), (0x30000, 0x10FFFF)];
fn mappable(oe: &'static Encoding, c: u32) -> bool { !crate::model::M.encode(oe.name(), &[c]).iter().any(|i| matches!(i, crate::model::EItem::U(_))) }
/// per-encoder class-representative scalar alphabet (wide): specials + first/last mappable and first unmappable of every script range
pub fn encoder_alpha(enc: &'static Encoding) -> Vec<u32> {
    use std::collections::HashMap; use std::sync::{Mutex, OnceLock};
    static CACHE: OnceLock<Mutex<HashMap<&'static str, Vec<u32>>>> = OnceLock::new();
    let oe = enc.output_encoding();
    let cache = CACHE.get_or_init(|| Mutex::new(HashMap::new()));
    if let Some(v) = cache.lock().unwrap().get(oe.name()) { return v.clone(); }
    let mut v: Vec<u32> = vec![0x00, 0x41, 0x3B, 0x5C, 0x7E, 0x0E, 0x1B, 0x80, 0xA5, 0x203E, 0x2212, 0x20AC, 0xE5E5, 0xE7C7, 0xE78D, 0x2550, 0x5341, 0xF780, 0xFFFD, 0x10FFFF,
        // NCR digit-count class boundaries (9/10 ... 999999/1000000)
        0x63, 0x64, 0x3E7, 0x3E8, 0x270F, 0x2710, 0xFFFF, 0x10000, 0x1869F, 0x186A0, 0xF423F, 0xF4240];
    for &(lo, hi) in SCRIPT_RANGES.iter() {
        let step = if hi - lo > 0x4000 { 7 } else { 1 };
        let mut first_m = None; let mut last_m = None; let mut first_u = None; let mut mid_u = None;
        let mut c = lo; while c <= hi { if mappable(oe, c) { if first_m.is_none() { first_m = Some(c); } last_m = Some(c); } else { if first_u.is_none() { first_u = Some(c); } else if first_m.is_some() && mid_u.is_none() { mid_u = Some(c); } } c += step; }
        for x in [first_m, last_m, first_u, mid_u] { if let Some(x) = x { v.push(x); } }
    }
    v.sort(); v.dedup();
    cache.lock().unwrap().insert(oe.name(), v.clone());
    v
}
/// reduced per-encoder alphabet for history enumerations: base + a mappable and an unmappable scalar of the
/// ideograph, kana and hangul arms
pub fn encoder_alpha_small(enc: &'static Encoding, base: &[u32]) -> Vec<u32> {
    let full = encoder_alpha(enc);
    let oe = enc.output_encoding();
    let mut v = base.to_vec();
    for &(lo, hi) in [(0x4E00u32, 0x9FFFu32), (0x3040, 0x30FF), (0xAC00, 0xD7A3)].iter() {
        if let Some(m) = full.iter().find(|c| **c >= lo && **c <= hi && mappable(oe, **c)) { v.push(*m); }
        if let Some(u) = full.iter().find(|c| **c >= lo && **c <= hi && !mappable(oe, **c)) { v.push(*u); }
        // the first unmappable scalar that FOLLOWS a mappable one (a hole inside the arm, e.g. U+3094 for jis0208)
        if let Some(m) = full.iter().find(|c| **c >= lo && **c <= hi && mappable(oe, **c)) { if let Some(u) = full.iter().find(|c| **c > *m && **c <= hi && !mappable(oe, **c)) { v.push(*u); } }
    }
    v.sort(); v.dedup(); v
}

/// UTF-8 tokens: whole characters of every length, every truncation of them, and the classic ill-formed subsequences
pub fn utf8_tokens() -> Vec<&'static [u8]> {
    vec![b"A", b"\x00", "\u{E9}".as_bytes(), "\u{4E00}".as_bytes(), "\u{1F4A9}".as_bytes(), "\u{FFFD}".as_bytes(), b"\xC3", b"\xE4", b"\xE4\xB8", b"\xF0", b"\xF0\x9F", b"\xF0\x9F\x92",
         b"\x80", b"\xFF", b"\xED\xA0", b"\xE0\x80", b"\xF4\x90", b"\xC0\xAF", b"\xEF\xBB\xBF"]
}
/// UTF-16 code units for unit-level stream enumeration
/// (with both neighbours of the surrogate range: a pairing test whose bound is off by one fuses D7FF / E000 into a pair)
pub const UTF16_UNITS: [u16; 10] = [0x0000, 0x0041, 0xD800, 0xDBFF, 0xDC00, 0xDFFF, 0xFFFE, 0x4E00, 0xD7FF, 0xE000];
