// C01 Decoding conforms to the Encoding Standard for every byte sequence (complete streams).
// Oracle: the executable WHATWG model (items + absolute malformed spans).
use crate::alpha::*;
use crate::drive::*;
use crate::ev::*;
use crate::hist::*;
use crate::model::{Item, M};
use crate::util::*;
use encoding_rs::*;

pub struct C01 { pub drv: Driver, pub all_sinks: bool }

impl C01 {
    /// Decode `stream` as one complete stream through the real decoder and compare with the model.
    pub fn check(&mut self, ev: &mut Ev, enc: &'static Encoding, stream: &[u8], enumerated: bool) {
        let tr = ev.case();
        let model = M.decode(enc.name(), stream);
        let nontrivial = stream.iter().any(|b| *b >= 0x80) || model.iter().any(|i| matches!(i, Item::E(..)));
        if nontrivial { if enumerated { ev.nontrivial_enum(); } else { let mut h = H::new(); h.s(enc.name()).b(stream); ev.nontrivial_hash(h.get()); } }
        let combos: &[(Sink, bool)] = if self.all_sinks { &[(Sink::U16, false), (Sink::U8, false), (Sink::U8, true), (Sink::U16, true)] } else { &[(Sink::U16, false), (Sink::U8, true)] };
        for &(sink, repl) in combos {
            let case = DecCase::whole(enc, Bom::Off, sink, repl, stream);
            let out = self.drv.run_dec(&case, ev);
            if tr { println!("TRACE {} calls={} items={} model={}", case.describe(), fmt_calls(&out.calls), fmt_items(&out.items), fmt_items(&model)); }
            ev.count(if repl { "model-diff.replaced-text" } else { "model-diff.items+spans" });
            if let Some(f) = out.fail_of(&[FailKind::Panic, FailKind::Stuck]) { ev.violation("model-diff", &format!("{}:{:?}", enc.name(), f.0), format!("complete stream could not be decoded: {:?} {} | {}", f.0, f.1, case.describe())); continue; }
            for c in out.calls.iter() { if let Res::Malformed(l, a) = c.res { let (l, a) = (l, a); ev.state(H::new().s(family(enc)).u(l as u64).u(a as u64).get(), || format!("{} Malformed({},{})", family(enc), l, a)); } }
            if repl {
                let exp = items_replaced(&model);
                let got = out.scalars();
                if got != exp { ev.violation("model-diff", &format!("{}:replaced-text", enc.name()), format!("decoder output (with replacement) differs from the Standard: got [{}] expected [{}] | {}", hex32(&got), hex32(&exp), case.describe())); }
                let exp_had = model.iter().any(|i| matches!(i, Item::E(..)));
                if out.had_any != exp_had { ev.violation("model-diff", &format!("{}:had_errors", enc.name()), format!("had_errors={} but the model has {} errors | {}", out.had_any, model.iter().filter(|i| matches!(i, Item::E(..))).count(), case.describe())); }
            } else if out.items != model {
                let k = out.items.iter().zip(model.iter()).position(|(a, b)| a != b).unwrap_or(out.items.len().min(model.len()));
                let kind = match (out.items.get(k), model.get(k)) { (Some(Item::E(..)), Some(Item::E(..))) => "span", (Some(Item::C(_)), Some(Item::C(_))) => "scalar", _ => "structure" };
                ev.violation("model-diff", &format!("{}:{}", enc.name(), kind), format!("item {} differs: got [{}] expected [{}] | {}", k, fmt_items(&out.items), fmt_items(&model), case.describe()));
            }
            if let Some(f) = out.fail_of(&[FailKind::Contract]) { if f.1.contains("Malformed") { ev.violation("model-diff", &format!("{}:malformed-range", enc.name()), format!("{} | {}", f.1, case.describe())); } }
        }
        ev.sample(|| format!("{} stream={} model=[{}]", enc.name(), hexs(stream), fmt_items(&model)));
    }
}

pub fn ofam(enc: &'static Encoding) -> &'static str { family(enc.output_encoding()) }
pub fn family(enc: &'static Encoding) -> &'static str { if enc.is_single_byte() && enc != X_USER_DEFINED { "single-byte" } else { enc.name() } }

pub fn run(ctx: &Ctx, ev: &mut Ev) {
    let mut c = C01 { drv: Driver::new(), all_sinks: ctx.thorough() };
    let th = ctx.thorough();
    let tiny = !ctx.native() && ctx.mode != Mode::Asan;
    // (a) all strings of length <= 2, all 40 encodings
    if ctx.want("len2") && !tiny {
        for &enc in ALL.iter() {
            let sb = enc.is_single_byte();
            if ev.mine() { c.check(ev, enc, &[], true); for a in 0..=255u8 { c.check(ev, enc, &[a], true); } }
            for a in 0..=255u8 {
                if !ev.mine() { continue; }
                // single-byte tables: every byte is independent; quick samples the second byte
                let step = if sb && !th { 16 } else { 1 };
                let mut b = (a as usize) % step;
                while b < 256 { c.check(ev, enc, &[a, b as u8], true); b += step; }
            }
        }
        if th { ev.exhaustive("all byte strings of length <= 2 x 40 encodings"); }
    }
    // (b) three-/four-byte families
    if ctx.want("len3") && !tiny {
        let xs = [0x41u8, 0x80, 0xA1];
        // every two-byte sequence followed by one more byte (ASCII / invalid / lead): "lead trail X" over every pointer
        for &enc in [BIG5, EUC_KR, SHIFT_JIS, EUC_JP, GB18030, GBK].iter() { for a in 0x80..=255u8 { if !ev.mine() { continue; } let step = if th { 1 } else { 3 }; let mut b = (a as usize) % step; while b < 256 { for x in xs { c.check(ev, enc, &[a, b as u8, x], true); } b += step; } } }
        for a in [0x8Eu8, 0x8F] { for b in 0..=255u8 { if !ev.mine() { continue; } for d in 0..=255u8 { if !th && a == 0x8E && d % 4 != 0 { continue; } c.check(ev, EUC_JP, &[a, b, d], true); if th || d % 8 == 0 { c.check(ev, EUC_JP, &[a, b, d, 0x41], true); } } } }
        for a in 0xE0..=0xF7u8 { for b in 0..=255u8 { if !ev.mine() { continue; } if !th && !(b % 4 == 0 || matches!(b, 0x7F | 0x80 | 0x8F | 0x90 | 0x9F | 0xA0 | 0xBF | 0xC0 | 0xC1)) { continue; } for d in 0..=255u8 { c.check(ev, UTF_8, &[a, b, d], true); } } }
        let bset = [0x00u8, 0x41, 0x7F, 0x80, 0x8F, 0x90, 0x9F, 0xA0, 0xBF, 0xC0, 0xC2, 0xE0, 0xED, 0xF0, 0xF4, 0xFF];
        for a in 0xF0..=0xF7u8 { for b in 0..=255u8 { if !ev.mine() { continue; } if !th && b % 3 != 0 && !bset.contains(&b) { continue; } for d in bset { for e in bset { c.check(ev, UTF_8, &[a, b, d, e], true); if th { c.check(ev, UTF_8, &[a, b, d, e, 0x80], true); } } } } }
        for b in 0..=255u8 { if !ev.mine() { continue; } for d in 0..=255u8 { if !th && !(matches!(b, 0x24 | 0x28 | 0x1B) || d % 16 == 0) { continue; } c.check(ev, ISO_2022_JP, &[0x1B, b, d], true); for x in [0x21u8, 0x41, 0x5C, 0x7E, 0x1B, 0x80, 0x0E, 0x60] { c.check(ev, ISO_2022_JP, &[0x1B, b, d, x], true); if th || matches!(b, 0x24 | 0x28) { c.check(ev, ISO_2022_JP, &[0x1B, b, d, x, 0x21], true); } } } }
        let ub = [0x00u8, 0x41, 0xD8, 0xDB, 0xDC, 0xDF, 0xFF, 0xFE];
        for enc in [UTF_16LE, UTF_16BE] { for s in strings_over(&ub, if th { 6 } else { 5 }).iter() { if s.len() < 3 || !ev.mine() { continue; } c.check(ev, enc, s, true); } }
    }
    // (c) ISO-2022-JP token grammar
    if ctx.want("tokens") && !tiny {
        let toks = iso2022jp_tokens();
        let idx: Vec<usize> = (0..toks.len()).collect();
        for seq in strings_over(&idx, if th { 5 } else { 4 }).iter() { if seq.is_empty() || !ev.mine() { continue; } let mut s = vec![]; for t in seq { s.extend_from_slice(toks[*t]); } c.check(ev, ISO_2022_JP, &s, true); }
        let ut = utf8_tokens();
        let idx: Vec<usize> = (0..ut.len()).collect();
        for seq in strings_over(&idx, if th { 4 } else { 3 }).iter() { if seq.is_empty() || !ev.mine() { continue; } let mut s = vec![]; for t in seq { s.extend_from_slice(ut[*t]); } c.check(ev, UTF_8, &s, true); }
        for seq in strings_over(&UTF16_UNITS, if th { 5 } else { 4 }).iter() { if seq.is_empty() || !ev.mine() { continue; } for enc in [UTF_16LE, UTF_16BE] { for odd in [false, true] { let mut s = vec![]; for u in seq.iter() { if enc == UTF_16LE { s.push(*u as u8); s.push((*u >> 8) as u8); } else { s.push((*u >> 8) as u8); s.push(*u as u8); } } if odd { s.push(0xDC); } c.check(ev, enc, &s, true); } } }
        let gt = gb18030_tokens();
        let idx: Vec<usize> = (0..gt.len()).collect();
        for seq in strings_over(&idx, if th { 4 } else { 3 }).iter() { if seq.is_empty() || !ev.mine() { continue; } let mut s = vec![]; for t in seq { s.extend_from_slice(gt[*t]); } c.check(ev, GB18030, &s, true); if th { c.check(ev, GBK, &s, true); } }
    }
    // (d) gb18030 four-byte space
    if ctx.want("gb4") && !tiny {
        for a in 0x81..=0xFEu8 { for b in 0x30..=0x39u8 {
            if !ev.mine() { continue; }
            for d in 0x81..=0xFEu8 { for e in 0x30..=0x39u8 {
                let p = (a as u32 - 0x81) * 12600 + (b as u32 - 0x30) * 1260 + (d as u32 - 0x81) * 10 + e as u32 - 0x30;
                let edge = [0u32, 7457, 39419, 39420, 188999, 189000, 1237575, 1237576].iter().any(|x| p + 2 >= *x && p <= *x + 2);
                if !th && !edge && (p % 61) != 0 { continue; }
                c.check(ev, GB18030, &[a, b, d, e], true);
                if th && p % 16 == 0 { c.check(ev, GBK, &[a, b, d, e], true); }
            } }
        } }
        // every range of the four-byte BMP map: both neighbours of every change point, and the middle of every range
        // (a changed cell of the ranges table moves one whole range, however short)
        if ev.mine() {
            let pts = crate::model::gb18030_range_points();
            let mut ps: Vec<u32> = vec![];
            for (k, p) in pts.iter().enumerate() { let next = pts.get(k + 1).copied().unwrap_or(39420); for q in [p.saturating_sub(1), *p, *p + 1, (*p + next) / 2, next.saturating_sub(1)] { if q < 39420 { ps.push(q); } } }
            ps.sort(); ps.dedup();
            for p in ps { let s = [(p / 12600) as u8 + 0x81, ((p % 12600) / 1260) as u8 + 0x30, ((p % 1260) / 10) as u8 + 0x81, (p % 10) as u8 + 0x30]; c.check(ev, GB18030, &s, true); c.check(ev, GBK, &s, true); }
        }
        let bset = [0x00u8, 0x2F, 0x30, 0x39, 0x3A, 0x41, 0x7F, 0x80, 0x81, 0xFE, 0xFF];
        for a in [0x81u8, 0x84, 0x90, 0xE3, 0xFE] { for b in bset { if !ev.mine() { continue; } for d in bset { for e in bset { c.check(ev, GB18030, &[a, b, d, e], true); for x in bset { c.check(ev, GB18030, &[a, b, d, e, x], true); if th { c.check(ev, GB18030, &[0x41, a, b, d, e, x, 0x30], true); } } } } } }
        if th { ev.exhaustive("all 1,587,600 well-formed gb18030 four-byte strings"); }
    }
    // (f) huge streams: lengths on both sides of 2^16 (thorough: 2^17, 2^20) - beyond every 16-bit counter - made of valid
    // segments with a few defects planted next to the 2^16 boundary and at the very end
    if ctx.want("huge") && !tiny {
        let mut r = ctx.fixed_rng(17);
        let sizes: Vec<usize> = if th { vec![65_535, 65_536, 65_537, 70_001, 131_073, (1 << 20) + 1] } else { vec![65_535, 65_536, 65_537, 70_001] };
        for &enc in ALL.iter() { for &n in sizes.iter() {
            if !ev.mine() { continue; }
            // a pool of error-free segments for this encoding (drawn once), cycled until the stream is long enough
            let mut pool: Vec<Vec<u8>> = vec![];
            for _ in 0..400 { let seg = random_stream(&mut r, enc, 6); if !seg.is_empty() && seg.len() <= 64 && !M.decode(enc.name(), &seg).iter().any(|i| matches!(i, Item::E(..))) { pool.push(seg); if pool.len() >= 24 { break; } } }
            if pool.is_empty() { pool.push(b"abc".to_vec()); }
            let mut stream: Vec<u8> = Vec::with_capacity(n + 64);
            let mut k = 0usize;
            while stream.len() < n { stream.extend_from_slice(&pool[k % pool.len()]); k += 1 + (k / pool.len()) % 3; }
            stream.truncate(n);
            c.check(ev, enc, &stream, true);
            for p in [65_534usize, 65_535, 65_536, n - 1] { if p < n { stream[p] = 0xFF; } }
            c.check(ev, enc, &stream, true);
        } }
    }
    // (e) seeded long grammar-based streams, every start alignment
    if ctx.want("long") {
        let mut r = ctx.rng(1);
        let n = ctx.budget(60_000, 10_000_000);
        for i in 0..n {
            let enc = ALL[r.below(40)];
            let s = random_stream(&mut r, enc, if i % 50 == 0 { 40 } else { 6 });
            let s = if s.len() > 4000 { &s[..4000] } else { &s[..] };
            c.drv.ample = 0;
            let case_align = r.below(16);
            // alignment is varied through the arena by the driver's src_align; use check() with default + one aligned whole run
            c.check(ev, enc, s, false);
            let mut case = DecCase::whole(enc, Bom::Off, Sink::U8, true, s); case.src_align = case_align; case.dst_align = r.below(16);
            let out = c.drv.run_dec(&case, ev);
            let exp = items_replaced(&M.decode(enc.name(), s));
            if out.scalars() != exp && out.fail_of(&[FailKind::Panic]).is_none() { ev.violation("model-diff", &format!("{}:aligned-long", enc.name()), format!("long stream at src alignment {} differs from the Standard | {}", case_align, case.describe())); }
        }
    }
}
