// C09 Replacement modes equal the documented manual error-recovery procedure.
// Oracle: the same history through the *_without_replacement method driven by the documented procedure
// (append U+FFFD / "&#N;" for each Malformed / Unmappable, re-push the rest). The per-call booleans are
// checked by slicing the manual run's item list with the per-call output counts of the replacing run.
use crate::alpha::*;
use crate::drive::*;
use crate::ev::*;
use crate::hist::*;
use crate::model::{EItem, Item};
use crate::util::*;
use encoding_rs::*;

pub fn check_dec(drv: &mut Driver, ev: &mut Ev, case: &DecCase, enumerated: bool) {
    debug_assert!(case.repl);
    let tr = ev.case();
    let a = drv.run_dec(case, ev);
    let mut manual = case.clone(); manual.repl = false;
    let b = drv.run_dec(&manual, ev);
    if tr { println!("TRACE {} | replacing calls: {} | manual calls: {} | manual items: [{}]", case.describe(), fmt_calls(&a.calls), fmt_calls(&b.calls), fmt_items(&b.items)); }
    ev.count("replacement-diff.decode-histories");
    let key = |k: &str| format!("decode:{}:{:?}:{}", crate::c01::family(case.enc), case.sink, k);
    match (a.fail_of(&[FailKind::Panic, FailKind::Stuck]), b.fail_of(&[FailKind::Panic, FailKind::Stuck])) {
        (None, None) => {}
        (Some(f), None) => { ev.violation("replacement-diff", &key(&format!("replacing-run-{:?}", f.0)), format!("the replacing method did not complete ({:?}: {}) although the documented manual procedure on the same history does, giving [{}] | {} | calls: {}", f.0, f.1, fmt_items(&b.items), case.describe(), fmt_calls(&a.calls))); return; }
        _ => { ev.count("replacement-diff.aborted(manual run panicked/stuck: C06/C08)"); return; }
    }
    let nerr = b.items.iter().filter(|i| matches!(i, Item::E(..))).count();
    if nerr > 0 { if enumerated { ev.nontrivial_enum(); } else { ev.nontrivial_hash(case.hash()); } }
    let exp = items_replaced(&b.items);
    let got = a.scalars();
    if got != exp { ev.violation("replacement-diff", &key("text"), format!("replacing method gave [{}], manual recovery gives [{}] | {}", hex32(&got), hex32(&exp), case.describe())); return; }
    // per-call had_errors
    let mut k = 0usize;
    for (ci, c) in a.calls.iter().enumerate() {
        let slice = &b.items[k.min(b.items.len())..(k + c.nscalars).min(b.items.len())];
        let exp_had = slice.iter().any(|i| matches!(i, Item::E(..)));
        ev.count("replacement-diff.flag-checks");
        if c.had != exp_had { ev.violation("replacement-diff", &key(if c.had { "had_errors-true-without-substitution" } else { "had_errors-false-with-substitution" }), format!("call {} returned had_errors={} but {} substitution(s) happened in it | {} | calls: {}", ci, c.had, slice.iter().filter(|i| matches!(i, Item::E(..))).count(), case.describe(), fmt_calls(&a.calls))); break; }
        k += c.nscalars;
    }
    ev.state(H::new().s(crate::c01::family(case.enc)).u(nerr.min(3) as u64).u(case.sink as u64).get(), || format!("decode {} {:?} errors={}", crate::c01::family(case.enc), case.sink, nerr.min(3)));
    ev.sample(|| format!("{} -> manual items [{}]", case.describe(), fmt_items(&b.items)));
}

pub fn check_enc(drv: &mut Driver, ev: &mut Ev, case: &EncCase, enumerated: bool) {
    debug_assert!(case.repl);
    let tr = ev.case();
    let a = drv.run_enc(case, ev);
    let mut manual = case.clone(); manual.repl = false;
    // the manual procedure needs room for the caller's own NCR, not the encoder's: keep capacities, they are >= 4
    let b = drv.run_enc(&manual, ev);
    if tr { println!("TRACE {} | replacing calls: {} bytes={} | manual calls: {} items=[{}]", case.describe(), fmt_calls(&a.calls), hex(&a.bytes), fmt_calls(&b.calls), fmt_eitems(&b.items)); }
    ev.count("replacement-diff.encode-histories");
    let key = |k: &str| format!("encode:{}:{}:{}", crate::c01::ofam(case.enc), if case.src16 { "utf16" } else { "utf8" }, k);
    match (a.fail_of(&[FailKind::Panic, FailKind::Stuck]), b.fail_of(&[FailKind::Panic, FailKind::Stuck])) {
        (None, None) => {}
        (Some(f), None) => { ev.violation("replacement-diff", &key(&format!("replacing-run-{:?}", f.0)), format!("the replacing method did not complete ({:?}: {}) although the documented manual procedure on the same history does | {} | calls: {}", f.0, f.1, case.describe(), fmt_calls(&a.calls))); return; }
        _ => { ev.count("replacement-diff.aborted(manual run panicked/stuck: C06/C08)"); return; }
    }
    // expected bytes and NCR start offsets
    let mut exp: Vec<u8> = vec![]; let mut ncr_starts: Vec<usize> = vec![];
    for it in b.items.iter() { match it { EItem::B(x) => exp.extend_from_slice(x), EItem::U(c) => { ncr_starts.push(exp.len()); exp.extend_from_slice(format!("&#{};", c).as_bytes()); } } }
    if !ncr_starts.is_empty() { if enumerated { ev.nontrivial_enum(); } else { ev.nontrivial_hash(case.hash()); } }
    if a.bytes != exp { ev.violation("replacement-diff", &key("bytes"), format!("replacing method gave {}, manual recovery gives {} | {}", hex(&a.bytes), hex(&exp), case.describe())); return; }
    let mut start = 0usize;
    for (ci, c) in a.calls.iter().enumerate() {
        let end = a.ends.get(ci).copied().unwrap_or(start);
        let exp_had = ncr_starts.iter().any(|s| *s >= start && *s < end);
        ev.count("replacement-diff.flag-checks");
        if c.had != exp_had { ev.violation("replacement-diff", &key(if c.had { "had_unmappables-true-without-substitution" } else { "had_unmappables-false-with-substitution" }), format!("call {} returned had_unmappables={} but its output bytes [{}, {}) {} a numeric character reference | {} | calls: {}", ci, c.had, start, end, if exp_had { "contain" } else { "do not contain" }, case.describe(), fmt_calls(&a.calls))); break; }
        start = end;
    }
    ev.state(H::new().s(crate::c01::ofam(case.enc)).u(ncr_starts.len().min(3) as u64).u(case.src16 as u64).u(5).get(), || format!("encode {} src16={} unmappables={}", crate::c01::ofam(case.enc), case.src16, ncr_starts.len().min(3)));
}

pub fn run(ctx: &Ctx, ev: &mut Ev) {
    let mut drv = Driver::new();
    let th = ctx.thorough();
    let tiny = !ctx.native();
    if ctx.want("dec") {
        let sp = DecSpace { encs: families(), small_alpha: !th, maxlen: if tiny { 2 } else { 3 }, utf16_extra: 1, boms: vec![Bom::Off, Bom::Sniff], sinks: vec![Sink::U8, Sink::U16, Sink::Str, Sink::String], repls: vec![true],
            cap_offsets: vec![vec![0], vec![1], vec![2], vec![3], vec![0, 5]], last_seps: vec![false, true], stride: if tiny { 101 } else if th { 2 } else { 1 }, prefixes: vec![], fills: vec![0x22], token_streams: if tiny { (0, 0) } else { (2, 2) } };
        ev.note(format!("dec: {}", sp.describe()));
        enum_dec(ctx, ev, &sp, |case, _ng, ev| check_dec(&mut drv, ev, case, true));
        let sp2 = DecSpace { encs: ALL.iter().copied().collect(), small_alpha: true, maxlen: 2, utf16_extra: 1, boms: vec![Bom::Off], sinks: vec![Sink::U8, Sink::U16], repls: vec![true],
            cap_offsets: vec![vec![0], vec![2]], last_seps: vec![false], stride: if tiny { 31 } else { 1 }, prefixes: vec![], fills: vec![0x22], token_streams: (0, 0) };
        enum_dec(ctx, ev, &sp2, |case, _ng, ev| check_dec(&mut drv, ev, case, true));
    }
    if ctx.want("enc") {
        let mut alpha: Vec<u32> = if th { SCALARS.to_vec() } else { SCALARS_SMALL.to_vec() }; alpha.push(0xD800); alpha.push(0x10FFFF); alpha.push(0x2603);
        let sp = EncSpace { encs: encoder_families(), alpha, maxlen: if tiny { 2 } else { 3 }, src16s: vec![false, true], vec_sinks: vec![false, true], repls: vec![true],
            cap_offsets: vec![vec![0], vec![1], vec![2], vec![6], vec![10], vec![0, 12]], last_seps: vec![false, true], stride: if tiny { 53 } else if th { 2 } else { 1 }, fills: vec![0x22], per_encoder: true };
        ev.note(format!("enc: {}", sp.describe()));
        enum_enc(ctx, ev, &sp, |case, _ng, ev| check_enc(&mut drv, ev, case, true));
        let sp2 = EncSpace { encs: ALL.iter().copied().collect(), alpha: vec![0x41, 0x2603, 0x1F4A9, 0xE9, 0xD800, 0x3042, 0x0], maxlen: 2, src16s: vec![false, true], vec_sinks: vec![false], repls: vec![true],
            cap_offsets: vec![vec![0], vec![3]], last_seps: vec![false], stride: if tiny { 11 } else { 1 }, fills: vec![0x22], per_encoder: true };
        enum_enc(ctx, ev, &sp2, |case, _ng, ev| check_enc(&mut drv, ev, case, true));
    }
    if ctx.want("random") {
        let mut r = ctx.rng(9);
        let n = ctx.budget(200_000, 6_000_000);
        for i in 0..n {
            let enc = ALL[r.below(40)];
            if r.chance(2) {
                let stream = random_stream(&mut r, enc, if i % 40 == 0 { 20 } else { 4 }); let stream = &stream[..stream.len().min(2000)];
                let sink = SINKS[r.below(4)]; let cuts = random_cuts(&mut r, stream.len()); let caps = random_caps(&mut r, dec_min_cap(sink), true);
                let case = DecCase { enc, bom: BOMS[r.below(3)], sink, repl: true, stream, cuts: &cuts, last_sep: r.chance(2), caps: &caps, fill: 0x22, src_align: r.below(16), dst_align: r.below(16), filler: r.below(16) };
                check_dec(&mut drv, ev, &case, false);
            } else {
                let src16 = r.chance(2); let t = random_text(&mut r, if i % 40 == 0 { 12 } else { 3 }, src16); let t = &t[..t.len().min(800)];
                if t.windows(2).any(|w| (0xD800..0xDC00).contains(&w[0]) && (0xDC00..0xE000).contains(&w[1])) { continue; }
                let cuts = random_cuts(&mut r, t.len()); let caps = random_caps(&mut r, 14, true);
                let case = EncCase { enc, src16, vec_sink: !src16 && r.chance(3), repl: true, atoms: t, cuts: &cuts, last_sep: r.chance(2), caps: &caps, fill: 0x22, src_align: r.below(16), dst_align: r.below(16) };
                check_enc(&mut drv, ev, &case, false);
            }
        }
    }
    // every scalar through the replacing entry points (NCR length classes) for three encoders + all encoders on boundaries
    if ctx.want("ncr") && !tiny {
        for &enc in [WINDOWS_1252, ISO_2022_JP, BIG5, EUC_KR, SHIFT_JIS, GBK, X_USER_DEFINED].iter() {
            for block in 0..0x1100u32 { if !ev.mine() { continue; } for cp in (block << 8)..(block << 8) + 0x100 {
                if (0xD800..0xE000).contains(&cp) { continue; }
                let boundary = [9u32, 10, 99, 100, 999, 1000, 9999, 10000, 99999, 100000, 999999, 1000000, 0x10FFFF].iter().any(|b| cp + 1 >= *b && cp <= *b + 1);
                if !th && !boundary && cp % 7 != block % 7 { continue; }
                if enc != WINDOWS_1252 && enc != ISO_2022_JP && !boundary && cp % 5 != 0 { continue; }
                let atoms = [cp];
                let caps = [14usize];
                let case = EncCase { enc, src16: cp % 2 == 0, vec_sink: cp % 4 == 1, repl: true, atoms: &atoms, cuts: &[], last_sep: false, caps: &caps, fill: 0x22, src_align: 0, dst_align: 0 };
                check_enc(&mut drv, ev, &case, true);
            } }
        }
    }
}
