// Recording drivers. Every public streaming call of a workload goes through here: buffers come
// from the arena (guarded, aligned, pre-filled), a call record is pushed, universal monitors
// (contract, guard bands, validity of what was exposed, progress counters) run after every call,
// and the documented caller loop (re-push unconsumed input, flush output) is followed.
use crate::arena::*;
use crate::ev::Ev;
use crate::model::{EItem, Item};
use crate::util::*;
use encoding_rs::*;
use std::panic::{catch_unwind, AssertUnwindSafe};

#[derive(Clone, Copy, PartialEq, Eq, Debug, Hash)]
pub enum Bom { Sniff, Remove, Off }
pub const BOMS: [Bom; 3] = [Bom::Sniff, Bom::Remove, Bom::Off];
#[derive(Clone, Copy, PartialEq, Eq, Debug, Hash)]
pub enum Sink { U8, Str, String, U16 }
pub const SINKS: [Sink; 4] = [Sink::U8, Sink::Str, Sink::String, Sink::U16];
#[derive(Clone, Copy, PartialEq, Eq, Debug, Hash)]
pub enum Res { InputEmpty, OutputFull, Malformed(u8, u8), Unmappable(u32) }
#[derive(Clone, Copy, PartialEq, Eq, Debug, Hash)]
pub enum FailKind { Panic, Stuck, NoProgress, Contract, Guard, Invalid, StrInvalid, Realloc }

pub fn new_decoder(enc: &'static Encoding, bom: Bom) -> Decoder {
    match bom { Bom::Sniff => enc.new_decoder(), Bom::Remove => enc.new_decoder_with_bom_removal(), Bom::Off => enc.new_decoder_without_bom_handling() }
}
/// life-cycle state as printed by the crate's own Debug impl (no hook needed)
pub fn life_cycle(d: &Decoder) -> String {
    let s = format!("{:?}", d);
    match s.find("life_cycle: ") { Some(i) => s[i + 12..].split(|c: char| !c.is_alphanumeric()).next().unwrap_or("?").to_string(), None => "?".into() }
}

#[derive(Clone, Debug)]
pub struct DecCase<'a> {
    pub enc: &'static Encoding,
    pub bom: Bom,
    pub sink: Sink,
    pub repl: bool,
    pub stream: &'a [u8],
    /// chunk end offsets (ascending; repeated values give empty chunks); the final chunk is the rest
    pub cuts: &'a [usize],
    /// raise `last` on an extra empty call instead of on the final chunk
    pub last_sep: bool,
    /// per-call destination capacities (cycled)
    pub caps: &'a [usize],
    pub fill: u8,
    pub src_align: usize,
    pub dst_align: usize,
    /// filler selector for `&mut str` / String sinks (index + phase)
    pub filler: usize,
}
impl<'a> DecCase<'a> {
    pub fn whole(enc: &'static Encoding, bom: Bom, sink: Sink, repl: bool, stream: &'a [u8]) -> DecCase<'a> {
        DecCase { enc, bom, sink, repl, stream, cuts: &[], last_sep: false, caps: &[], fill: 0, src_align: 0, dst_align: 0, filler: 3 }
    }
    pub fn describe(&self) -> String {
        format!("enc={} bom={:?} sink={:?} repl={} stream={} cuts={:?} last_sep={} caps={:?} fill={:02x} align={}/{} filler={}",
            self.enc.name(), self.bom, self.sink, self.repl, hexs(self.stream), self.cuts, self.last_sep, self.caps, self.fill, self.src_align, self.dst_align, self.filler)
    }
    pub fn hash(&self) -> u64 {
        let mut h = H::new();
        h.s(self.enc.name()).u(self.bom as u64).u(self.sink as u64).u(self.repl as u64).b(self.stream).u(self.last_sep as u64).u(self.fill as u64);
        for c in self.cuts { h.u(*c as u64); } h.u(0xFFFF);
        for c in self.caps { h.u(*c as u64); }
        h.get()
    }
}
#[derive(Clone, Debug, PartialEq, Eq)]
pub struct Call { pub off: usize, pub len: usize, pub cap: usize, pub last: bool, pub res: Res, pub read: usize, pub written: usize, pub had: bool, pub nscalars: usize }
#[derive(Clone, Debug, Default)]
pub struct DecOut {
    pub calls: Vec<Call>,
    /// what the caller collected, in order: scalars and (without replacement) absolute malformed spans
    pub items: Vec<Item>,
    pub had_any: bool,
    pub final_enc: Option<&'static Encoding>,
    pub fails: Vec<(FailKind, String)>,
    pub finished: bool,
}
impl DecOut {
    pub fn has(&self, k: FailKind) -> bool { self.fails.iter().any(|f| f.0 == k) }
    pub fn fail_of(&self, ks: &[FailKind]) -> Option<&(FailKind, String)> { self.fails.iter().find(|f| ks.contains(&f.0)) }
    pub fn scalars(&self) -> Vec<u32> { self.items.iter().filter_map(|i| if let Item::C(c) = i { Some(*c) } else { None }).collect() }
}

pub struct Driver {
    pub src8: Buf<u8>,
    pub src16: Buf<u16>,
    pub dst8: Buf<u8>,
    pub dst16: Buf<u16>,
    /// cap for the "ample" capacity when a case gives no capacities
    pub ample: usize,
}

pub fn dec_min_cap(sink: Sink) -> usize { if sink == Sink::U16 { 2 } else { 4 } }

impl Driver {
    pub fn new() -> Driver { Driver { src8: Buf::new(8192), src16: Buf::new(8192), dst8: Buf::new(16384), dst16: Buf::new(16384), ample: 0 } }

    pub fn run_dec(&mut self, c: &DecCase, ev: &mut Ev) -> DecOut {
        let mut out = DecOut::default();
        let mut d = new_decoder(c.enc, c.bom);
        let n = c.stream.len();
        // chunk list
        let mut chunks: Vec<(usize, usize, bool)> = Vec::with_capacity(c.cuts.len() + 2);
        let mut prev = 0;
        for &cut in c.cuts { let cut = cut.min(n).max(prev); chunks.push((prev, cut, false)); prev = cut; }
        if c.last_sep { chunks.push((prev, n, false)); chunks.push((n, n, true)); } else { chunks.push((prev, n, true)); }
        let ample = if c.sink == Sink::U16 { n * 2 + 16 } else { n * 3 + 16 };
        let max_calls = 4 * n + 16 + chunks.len() + 8;
        let mut consumed = 0usize;
        let mut ci = 0usize;
        'chunks: for &(a, b, last) in chunks.iter() {
            let mut pos = a;
            loop {
                if out.calls.len() >= max_calls { out.fails.push((FailKind::Stuck, format!("more than {} calls for {} input bytes in {} chunks", max_calls, n, chunks.len()))); break 'chunks; }
                let cap = if c.caps.is_empty() { ample } else { c.caps[ci % c.caps.len()] }; ci += 1;
                let src = self.src8.carve_from(&c.stream[pos..b], c.src_align);
                // SAFETY of lifetimes: src borrows self.src8 immutably; the destination comes from other fields.
                let src: &[u8] = unsafe { std::slice::from_raw_parts(src.as_ptr(), src.len()) };
                let mut call = Call { off: pos, len: b - pos, cap, last, res: Res::InputEmpty, read: 0, written: 0, had: false, nscalars: 0 };
                ev.api_calls += 1;
                let r = match c.sink {
                    Sink::U16 => {
                        let fill16 = (c.fill as u16) << 8 | c.fill as u16;
                        let dst = self.dst16.carve(cap, c.dst_align, fill16);
                        let r = catch_unwind(AssertUnwindSafe(|| if c.repl { let (r, rd, wr, h) = d.decode_to_utf16(src, dst, last); (conv_coder(r), rd, wr, h) } else { let (r, rd, wr) = d.decode_to_utf16_without_replacement(src, dst, last); (conv_dec(r), rd, wr, false) }));
                        match r {
                            Err(e) => Err(panic_message(&e)),
                            Ok((res, rd, wr, h)) => {
                                if let Some(g) = self.dst16.check() { out.fails.push((FailKind::Guard, g)); }
                                if wr > cap { out.fails.push((FailKind::Contract, format!("written {} > capacity {}", wr, cap))); Err("contract".into()) } else {
                                    let w = &self.dst16.get()[..wr];
                                    for ch in char::decode_utf16(w.iter().copied()) { match ch { Ok(ch) => { out.items.push(Item::C(ch as u32)); call.nscalars += 1; } Err(_) => { out.fails.push((FailKind::Invalid, format!("UTF-16 output of call {} not well-formed on its own: {}", out.calls.len(), hex16(w)))); break; } } }
                                    Ok((res, rd, wr, h))
                                }
                            }
                        }
                    }
                    Sink::U8 | Sink::Str => {
                        let dst = self.dst8.carve(cap, c.dst_align, c.fill);
                        if c.sink == Sink::Str { fill_valid_utf8(dst, c.filler, c.filler / 4 + out.calls.len()); }
                        let r = catch_unwind(AssertUnwindSafe(|| {
                            if c.sink == Sink::Str {
                                let s = std::str::from_utf8_mut(dst).expect("harness: filler valid");
                                if c.repl { let (r, rd, wr, h) = d.decode_to_str(src, s, last); (conv_coder(r), rd, wr, h) } else { let (r, rd, wr) = d.decode_to_str_without_replacement(src, s, last); (conv_dec(r), rd, wr, false) }
                            } else if c.repl { let (r, rd, wr, h) = d.decode_to_utf8(src, dst, last); (conv_coder(r), rd, wr, h) } else { let (r, rd, wr) = d.decode_to_utf8_without_replacement(src, dst, last); (conv_dec(r), rd, wr, false) }
                        }));
                        if c.sink == Sink::Str { if let Err(e) = std::str::from_utf8(self.dst8.get()) { out.fails.push((FailKind::StrInvalid, format!("&mut str of {} bytes invalid at {} after call {}: {}", cap, e.valid_up_to(), out.calls.len(), hexs(self.dst8.get())))); } }
                        match r {
                            Err(e) => Err(panic_message(&e)),
                            Ok((res, rd, wr, h)) => {
                                if let Some(g) = self.dst8.check() { out.fails.push((FailKind::Guard, g)); }
                                if wr > cap { out.fails.push((FailKind::Contract, format!("written {} > capacity {}", wr, cap))); Err("contract".into()) } else {
                                    let w = &self.dst8.get()[..wr];
                                    match std::str::from_utf8(w) { Ok(s) => { for ch in s.chars() { out.items.push(Item::C(ch as u32)); call.nscalars += 1; } } Err(_) => out.fails.push((FailKind::Invalid, format!("UTF-8 output of call {} not valid on its own: {}", out.calls.len(), hexs(w)))) }
                                    Ok((res, rd, wr, h))
                                }
                            }
                        }
                    }
                    Sink::String => {
                        // String with a prefix and exactly `cap` bytes of spare capacity
                        let prefix = STR_FILLERS[c.filler % 3];
                        let mut s = String::with_capacity(prefix.len() + cap);
                        s.push_str(prefix);
                        while s.capacity() - s.len() > cap { s.push('p'); }
                        let plen = s.len();
                        // stale valid multi-byte text behind the end (pushed, then truncated away): whatever the call exposes must be its own
                        { let f = STR_FILLERS[(c.filler / 3) % 3]; let mut k = 0; while k < (c.filler % 4) && s.len() < s.capacity() { s.push('q'); k += 1; } while s.len() + f.len() <= s.capacity() { s.push_str(f); } s.truncate(plen); }
                        let ptr = s.as_ptr() as usize; let capacity = s.capacity();
                        let pre: Vec<u8> = s.as_bytes().to_vec();
                        let r = catch_unwind(AssertUnwindSafe(|| if c.repl { let (r, rd, h) = d.decode_to_string(src, &mut s, last); (conv_coder(r), rd, h) } else { let (r, rd) = d.decode_to_string_without_replacement(src, &mut s, last); (conv_dec(r), rd, false) }));
                        if s.as_ptr() as usize != ptr || s.capacity() != capacity { out.fails.push((FailKind::Realloc, format!("String reallocated (capacity {} -> {})", capacity, s.capacity()))); }
                        if s.len() < plen || s.as_bytes()[..plen] != pre[..] { out.fails.push((FailKind::Realloc, "String prefix altered".into())); }
                        if let Err(e) = std::str::from_utf8(s.as_bytes()) { out.fails.push((FailKind::StrInvalid, format!("String invalid at {} after call {}: {}", e.valid_up_to(), out.calls.len(), hexs(s.as_bytes())))); }
                        match r {
                            Err(e) => Err(panic_message(&e)),
                            Ok((res, rd, h)) => {
                                let wr = s.len().saturating_sub(plen);
                                if wr > cap { out.fails.push((FailKind::Contract, format!("String grew by {} > spare capacity {}", wr, cap))); }
                                if let Ok(t) = std::str::from_utf8(&s.as_bytes()[plen.min(s.len())..]) { for ch in t.chars() { out.items.push(Item::C(ch as u32)); call.nscalars += 1; } }
                                Ok((res, rd, wr, h))
                            }
                        }
                    }
                };
                let (res, rd, wr, h) = match r {
                    Ok(x) => x,
                    Err(msg) => { if msg != "contract" { out.fails.push((FailKind::Panic, msg)); } out.calls.push(call); break 'chunks; }
                };
                call.res = res; call.read = rd; call.written = wr; call.had = h; out.had_any |= h;
                if rd > b - pos { out.fails.push((FailKind::Contract, format!("read {} > source length {}", rd, b - pos))); out.calls.push(call); break 'chunks; }
                if res == Res::InputEmpty && rd != b - pos { out.fails.push((FailKind::Contract, format!("InputEmpty but read {} of {}", rd, b - pos))); }
                if res == Res::OutputFull && rd == 0 && wr == 0 && cap >= dec_min_cap(c.sink) { out.fails.push((FailKind::NoProgress, format!("call {} returned OutputFull with read=0 written=0 (capacity {}, {} source bytes)", out.calls.len(), cap, b - pos))); }
                pos += rd; consumed += rd;
                if let Res::Malformed(l, af) = res {
                    let (l, af) = (l as usize, af as usize);
                    if !(1..=4).contains(&l) || af > 3 || l + af > 6 { out.fails.push((FailKind::Contract, format!("Malformed({}, {}) outside documented ranges", l, af))); }
                    if consumed < l + af { out.fails.push((FailKind::Contract, format!("Malformed({}, {}) with only {} bytes consumed so far", l, af, consumed))); } else { out.items.push(Item::E(consumed - af - l, consumed - af)); }
                    if c.repl { out.fails.push((FailKind::Contract, "Malformed from a replacing method".into())); }
                }
                let done = res == Res::InputEmpty;
                out.calls.push(call);
                if done { break; }
            }
        }
        if out.fails.iter().all(|f| !matches!(f.0, FailKind::Panic | FailKind::Stuck)) && out.calls.last().map(|c| c.last && c.res == Res::InputEmpty).unwrap_or(false) { out.finished = true; }
        out.final_enc = Some(d.encoding());
        out
    }
}

pub fn conv_coder(r: CoderResult) -> Res { match r { CoderResult::InputEmpty => Res::InputEmpty, CoderResult::OutputFull => Res::OutputFull } }
pub fn conv_dec(r: DecoderResult) -> Res { match r { DecoderResult::InputEmpty => Res::InputEmpty, DecoderResult::OutputFull => Res::OutputFull, DecoderResult::Malformed(a, b) => Res::Malformed(a, b) } }
pub fn conv_enc(r: EncoderResult) -> Res { match r { EncoderResult::InputEmpty => Res::InputEmpty, EncoderResult::OutputFull => Res::OutputFull, EncoderResult::Unmappable(c) => Res::Unmappable(c as u32) } }

/// cut mask -> cut offsets. bit 0 = empty first chunk, bit i (1 <= i < n) = cut before unit i.
pub fn cuts_from_mask(mask: u32, n: usize) -> Vec<usize> {
    let mut v = vec![];
    if mask & 1 != 0 { v.push(0); }
    for i in 1..n { if mask & (1 << i) != 0 { v.push(i); } }
    v
}

// ------------------------------------------------------------------------------------------
// Encoder histories

/// Text atoms: scalar values; values in D800..=DFFF stand for lone surrogates (UTF-16 sources only).
#[derive(Clone, Debug)]
pub struct EncCase<'a> {
    pub enc: &'static Encoding,
    pub src16: bool,
    pub vec_sink: bool,
    pub repl: bool,
    pub atoms: &'a [u32],
    /// chunk ends in atom indices
    pub cuts: &'a [usize],
    pub last_sep: bool,
    pub caps: &'a [usize],
    pub fill: u8,
    pub src_align: usize,
    pub dst_align: usize,
}
impl<'a> EncCase<'a> {
    pub fn whole(enc: &'static Encoding, src16: bool, repl: bool, atoms: &'a [u32]) -> EncCase<'a> {
        EncCase { enc, src16, vec_sink: false, repl, atoms, cuts: &[], last_sep: false, caps: &[], fill: 0, src_align: 0, dst_align: 0 }
    }
    pub fn describe(&self) -> String {
        format!("enc={} src={} sink={} repl={} text=[{}] cuts={:?} last_sep={} caps={:?} fill={:02x} align={}/{}",
            self.enc.name(), if self.src16 { "utf16" } else { "utf8" }, if self.vec_sink { "vec" } else { "slice" }, self.repl, hex32(self.atoms), self.cuts, self.last_sep, self.caps, self.fill, self.src_align, self.dst_align)
    }
    pub fn hash(&self) -> u64 {
        let mut h = H::new();
        h.s(self.enc.name()).u(self.src16 as u64).u(self.vec_sink as u64).u(self.repl as u64).u32s(self.atoms).u(self.last_sep as u64);
        for c in self.cuts { h.u(*c as u64); } h.u(0xFFFF);
        for c in self.caps { h.u(*c as u64); }
        h.get()
    }
}
#[derive(Clone, Debug, Default)]
pub struct EncOut {
    pub calls: Vec<Call>,
    /// bytes with unmappable reports in order (without replacement) - consecutive byte runs merged
    pub items: Vec<EItem>,
    /// everything written, concatenated (with replacement this includes the NCRs)
    pub bytes: Vec<u8>,
    /// byte count after each call (for prefix checks)
    pub ends: Vec<usize>,
    pub pending_after: Vec<bool>,
    pub had_any: bool,
    pub fails: Vec<(FailKind, String)>,
    pub finished: bool,
}
impl EncOut {
    pub fn has(&self, k: FailKind) -> bool { self.fails.iter().any(|f| f.0 == k) }
    pub fn fail_of(&self, ks: &[FailKind]) -> Option<&(FailKind, String)> { self.fails.iter().find(|f| ks.contains(&f.0)) }
}
pub fn is_lone(a: u32) -> bool { (0xD800..=0xDFFF).contains(&a) }
/// The scalar sequence an atom list denotes (lone surrogates count as U+FFFD).
pub fn atoms_scalars(atoms: &[u32]) -> Vec<u32> { atoms.iter().map(|a| if is_lone(*a) { 0xFFFD } else { *a }).collect() }
pub fn enc_min_cap(repl: bool) -> usize { if repl { 14 } else { 4 } }

impl Driver {
    pub fn run_enc(&mut self, c: &EncCase, ev: &mut Ev) -> EncOut {
        let mut out = EncOut::default();
        let mut e = c.enc.new_encoder();
        let n = c.atoms.len();
        // unit / byte offsets of atoms
        let mut u16s: Vec<u16> = Vec::with_capacity(n * 2); let mut off16 = Vec::with_capacity(n + 1);
        let mut u8s = String::with_capacity(n * 4); let mut off8 = Vec::with_capacity(n + 1);
        for (i, &a) in c.atoms.iter().enumerate() {
            off16.push(u16s.len()); off8.push(u8s.len());
            if is_lone(a) {
                assert!(c.src16, "harness: lone surrogate in a UTF-8 source");
                if a < 0xDC00 && i + 1 < n { assert!(!(0xDC00..=0xDFFF).contains(&c.atoms[i + 1]), "harness: lone high followed by lone low"); }
                u16s.push(a as u16);
            } else { let ch = char::from_u32(a).expect("harness: scalar"); let mut b = [0u16; 2]; u16s.extend_from_slice(ch.encode_utf16(&mut b)); u8s.push(ch); }
        }
        off16.push(u16s.len()); off8.push(u8s.len());
        let srclen = if c.src16 { u16s.len() } else { u8s.len() };
        let mut chunks: Vec<(usize, usize, bool)> = Vec::with_capacity(c.cuts.len() + 2);
        let mut prev = 0;
        for &cut in c.cuts { let cut = cut.min(n).max(prev); chunks.push((prev, cut, false)); prev = cut; }
        if c.last_sep { chunks.push((prev, n, false)); chunks.push((n, n, true)); } else { chunks.push((prev, n, true)); }
        let ample = srclen * 10 + 32;
        let max_calls = 4 * srclen + 16 + chunks.len() + 8;
        let mut ci = 0usize;
        'chunks: for &(a, b, last) in chunks.iter() {
            let (mut pos, end) = if c.src16 { (off16[a], off16[b]) } else { (off8[a], off8[b]) };
            loop {
                if out.calls.len() >= max_calls { out.fails.push((FailKind::Stuck, format!("more than {} calls for {} input units in {} chunks", max_calls, srclen, chunks.len()))); break 'chunks; }
                let cap = if c.caps.is_empty() { ample } else { c.caps[ci % c.caps.len()] }; ci += 1;
                let mut call = Call { off: pos, len: end - pos, cap, last, res: Res::InputEmpty, read: 0, written: 0, had: false, nscalars: 0 };
                ev.api_calls += 1;
                let s16: &[u16] = if c.src16 { let s = self.src16.carve_from(&u16s[pos..end], c.src_align); unsafe { std::slice::from_raw_parts(s.as_ptr(), s.len()) } } else { &[] };
                let s8: &str = if !c.src16 { let s = self.src8.carve_from(&u8s.as_bytes()[pos..end], c.src_align); unsafe { std::str::from_utf8_unchecked(std::slice::from_raw_parts(s.as_ptr(), s.len())) } } else { "" };
                let r: Result<(Res, usize, usize, bool), String> = if c.vec_sink && !c.src16 {
                    let mut v: Vec<u8> = Vec::with_capacity(3 + cap);
                    v.extend_from_slice(&[0xAA, 0xBB, 0xCC]);
                    while v.capacity() - v.len() > cap { v.push(0xDD); }
                    let plen = v.len(); let ptr = v.as_ptr() as usize; let capacity = v.capacity(); let pre = v.clone();
                    let r = catch_unwind(AssertUnwindSafe(|| if c.repl { let (r, rd, h) = e.encode_from_utf8_to_vec(s8, &mut v, last); (conv_coder(r), rd, h) } else { let (r, rd) = e.encode_from_utf8_to_vec_without_replacement(s8, &mut v, last); (conv_enc(r), rd, false) }));
                    if v.as_ptr() as usize != ptr || v.capacity() != capacity { out.fails.push((FailKind::Realloc, format!("Vec reallocated (capacity {} -> {})", capacity, v.capacity()))); }
                    if v.len() < plen || v[..plen] != pre[..] { out.fails.push((FailKind::Realloc, "Vec prefix altered".into())); }
                    match r { Err(p) => Err(panic_message(&p)), Ok((res, rd, h)) => { let wr = v.len().saturating_sub(plen); if wr > cap { out.fails.push((FailKind::Contract, format!("Vec grew by {} > spare capacity {}", wr, cap))); } out.bytes.extend_from_slice(&v[plen.min(v.len())..]); Ok((res, rd, wr, h)) } }
                } else {
                    let dst = self.dst8.carve(cap, c.dst_align, c.fill);
                    let r = catch_unwind(AssertUnwindSafe(|| match (c.src16, c.repl) {
                        (true, true) => { let (r, rd, wr, h) = e.encode_from_utf16(s16, dst, last); (conv_coder(r), rd, wr, h) }
                        (true, false) => { let (r, rd, wr) = e.encode_from_utf16_without_replacement(s16, dst, last); (conv_enc(r), rd, wr, false) }
                        (false, true) => { let (r, rd, wr, h) = e.encode_from_utf8(s8, dst, last); (conv_coder(r), rd, wr, h) }
                        (false, false) => { let (r, rd, wr) = e.encode_from_utf8_without_replacement(s8, dst, last); (conv_enc(r), rd, wr, false) }
                    }));
                    match r { Err(p) => Err(panic_message(&p)), Ok((res, rd, wr, h)) => {
                        if let Some(g) = self.dst8.check() { out.fails.push((FailKind::Guard, g)); }
                        if wr > cap { out.fails.push((FailKind::Contract, format!("written {} > capacity {}", wr, cap))); Err("contract".into()) } else { out.bytes.extend_from_slice(&self.dst8.get()[..wr]); Ok((res, rd, wr, h)) } } }
                };
                let (res, rd, wr, h) = match r { Ok(x) => x, Err(msg) => { if msg != "contract" { out.fails.push((FailKind::Panic, msg)); } out.calls.push(call); break 'chunks; } };
                call.res = res; call.read = rd; call.written = wr; call.had = h; out.had_any |= h;
                if rd > end - pos { out.fails.push((FailKind::Contract, format!("read {} > source length {}", rd, end - pos))); out.calls.push(call); break 'chunks; }
                if !c.src16 && !u8s.is_char_boundary(pos + rd) { out.fails.push((FailKind::Contract, format!("read {} splits a UTF-8 sequence", rd))); out.calls.push(call); break 'chunks; }
                if res == Res::InputEmpty && rd != end - pos { out.fails.push((FailKind::Contract, format!("InputEmpty but read {} of {}", rd, end - pos))); }
                if res == Res::OutputFull && rd == 0 && wr == 0 && cap >= enc_min_cap(c.repl) { out.fails.push((FailKind::NoProgress, format!("call {} returned OutputFull with read=0 written=0 (capacity {}, {} source units)", out.calls.len(), cap, end - pos))); }
                if wr > 0 { let w = &out.bytes[out.bytes.len() - wr..]; if let Some(EItem::B(v)) = out.items.last_mut() { v.extend_from_slice(w); } else { out.items.push(EItem::B(w.to_vec())); } }
                if let Res::Unmappable(u) = res { out.items.push(EItem::U(u)); if c.repl { out.fails.push((FailKind::Contract, "Unmappable from a replacing method".into())); } }
                pos += rd;
                out.ends.push(out.bytes.len());
                out.pending_after.push(e.has_pending_state());
                let done = res == Res::InputEmpty;
                out.calls.push(call);
                if done { break; }
            }
        }
        if out.fails.iter().all(|f| !matches!(f.0, FailKind::Panic | FailKind::Stuck)) && out.calls.last().map(|c| c.last && c.res == Res::InputEmpty).unwrap_or(false) { out.finished = true; }
        out
    }
}

/// Reference BOM rule + model decode: (encoding used, items with absolute spans).
pub fn model_decode_stream(enc: &'static Encoding, bom: Bom, stream: &[u8]) -> (&'static Encoding, Vec<Item>) {
    let sniffed: Option<(&'static Encoding, usize)> =
        if stream.len() >= 3 && stream[..3] == [0xEF, 0xBB, 0xBF] { Some((UTF_8, 3)) }
        else if stream.len() >= 2 && stream[..2] == [0xFE, 0xFF] { Some((UTF_16BE, 2)) }
        else if stream.len() >= 2 && stream[..2] == [0xFF, 0xFE] { Some((UTF_16LE, 2)) } else { None };
    let (eff, off) = match (bom, sniffed) {
        (Bom::Sniff, Some((e, o))) => (e, o),
        (Bom::Remove, Some((e, o))) if e == enc => (e, o),
        _ => (enc, 0),
    };
    let items = crate::model::M.decode(eff.name(), &stream[off..]).into_iter().map(|i| match i { Item::E(a, b) => Item::E(a + off, b + off), x => x }).collect();
    (eff, items)
}
pub fn items_replaced(items: &[Item]) -> Vec<u32> { items.iter().map(|i| match i { Item::C(c) => *c, Item::E(..) => 0xFFFD }).collect() }
pub fn fmt_items(items: &[Item]) -> String { items.iter().map(|i| match i { Item::C(c) => format!("{:x}", c), Item::E(a, b) => format!("E[{},{})", a, b) }).collect::<Vec<_>>().join(" ") }
pub fn fmt_eitems(items: &[EItem]) -> String { items.iter().map(|i| match i { EItem::B(b) => hex(b), EItem::U(c) => format!("U({:x})", c) }).collect::<Vec<_>>().join(" ") }
pub fn fmt_calls(calls: &[Call]) -> String { calls.iter().map(|c| format!("[src@{}+{} cap={} last={} -> {:?} read={} written={} had={}]", c.off, c.len, c.cap, c.last, c.res, c.read, c.written, c.had)).collect::<Vec<_>>().join(" ") }
