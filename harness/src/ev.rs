// Evidence collection: counters, distinct-state sets, samples, violations; result JSON.
use crate::util::*;
use std::collections::{BTreeMap, HashMap, HashSet};
use std::sync::atomic::{AtomicU64, Ordering};

/// case counter mirrored for the watchdog thread (see main.rs): a call into the crate that never returns stops it
pub static PROGRESS: AtomicU64 = AtomicU64::new(0);

#[derive(Clone, Copy, PartialEq, Eq, Debug)]
pub enum Tier { Quick, Thorough }
#[derive(Clone, Copy, PartialEq, Eq, Debug)]
pub enum Mode { Native, Asan, Vg, Miri }

#[derive(Clone, Debug)]
pub struct Ctx {
    pub prop: String,
    pub tier: Tier,
    pub seed: u64,
    pub shard: usize,
    pub nshards: usize,
    pub mode: Mode,
    pub build: String,
    pub only_case: Option<u64>,
    pub part: String, // optional sub-workload selector ("" = all)
}
impl Ctx {
    pub fn thorough(&self) -> bool { self.tier == Tier::Thorough }
    pub fn native(&self) -> bool { self.mode == Mode::Native }
    /// budget helper: quick/thorough value, divided down for slow tools and the dbg build
    pub fn budget(&self, quick: u64, thorough: u64) -> u64 {
        let b = if self.thorough() { thorough } else { quick };
        let b = match self.mode { Mode::Native => b, Mode::Asan => b / 4, Mode::Vg => b / 40, Mode::Miri => b / 20000 };
        let b = if self.build.starts_with("dbg") { b / 3 } else { b };
        (b / self.nshards as u64).max(1)
    }
    /// enumerations are thinned for the slower builds: every k-th case, offset from the seed
    pub fn stride_mult(&self) -> u64 { (if self.mode == Mode::Asan { 5 } else { 1 }) * (if self.build.starts_with("dbg") { 2 } else { 1 }) }
    pub fn rng(&self, salt: u64) -> Rng { Rng::from_parts(self.seed, &self.prop, self.shard, salt) }
    /// rng that does not depend on VERIF_SEED (for deterministic corpora)
    pub fn fixed_rng(&self, salt: u64) -> Rng { Rng::from_parts(0x5EED, "fixed", self.shard, salt) }
    pub fn want(&self, part: &str) -> bool { self.part.is_empty() || self.part.split(',').any(|p| p == part) }
}

pub struct Viol { pub monitor: String, pub key: String, pub detail: String, pub case_no: u64, pub count: u64 }

pub struct Ev {
    pub ctx: Ctx,
    pub case_no: u64,
    pub trace: bool,
    pub evaluations: u64,
    pub api_calls: u64,
    pub nontrivial: u64,
    pub hashes: HashSet<u64>,
    pub hash_cap: usize,
    pub counters: BTreeMap<String, u64>,
    pub states: HashMap<u64, String>,
    pub samples: Vec<String>,
    pub viols: BTreeMap<String, Viol>,
    pub exhaustive: Vec<String>,
    pub notes: Vec<String>,
    pub digests: BTreeMap<String, (u64, u64)>,
    mine_ctr: u64,
    sample_calls: u64,
    start: std::time::Instant,
}

impl Ev {
    pub fn new(ctx: Ctx) -> Ev {
        Ev { ctx, case_no: 0, trace: false, evaluations: 0, api_calls: 0, nontrivial: 0, hashes: HashSet::new(), hash_cap: 3_000_000,
             counters: BTreeMap::new(), states: HashMap::new(), samples: vec![], viols: BTreeMap::new(), exhaustive: vec![], notes: vec![], digests: BTreeMap::new(),
             mine_ctr: 0, sample_calls: 0, start: std::time::Instant::now() }
    }
    /// Shard partition: true for every nshards-th work unit.
    #[inline]
    pub fn mine(&mut self) -> bool { let r = (self.mine_ctr % self.ctx.nshards as u64) as usize == self.ctx.shard; self.mine_ctr += 1; r }
    /// Begin one evaluated case. Returns true when this case is being replayed (trace on).
    #[inline]
    pub fn case(&mut self) -> bool {
        self.case_no += 1;
        self.evaluations += 1;
        if self.case_no & 0xFF == 0 || self.ctx.mode != Mode::Native { PROGRESS.store(self.case_no, Ordering::Relaxed); }
        self.trace = self.ctx.only_case == Some(self.case_no);
        self.trace
    }
    #[inline]
    pub fn count(&mut self, k: &str) { self.count_n(k, 1) }
    pub fn count_n(&mut self, k: &str, n: u64) { if let Some(v) = self.counters.get_mut(k) { *v += n; } else { self.counters.insert(k.to_string(), n); } }
    #[inline]
    pub fn state(&mut self, h: u64, f: impl FnOnce() -> String) { if self.states.len() < 20000 && !self.states.contains_key(&h) { self.states.insert(h, f()); } }
    /// count a distinct non-trivial case that is distinct by construction (enumerations)
    #[inline]
    pub fn nontrivial_enum(&mut self) { self.nontrivial += 1; }
    /// count a non-trivial case whose distinctness is established by a 64-bit hash (random workloads)
    #[inline]
    pub fn nontrivial_hash(&mut self, h: u64) { if self.hashes.len() < self.hash_cap { self.hashes.insert(h); } }
    pub fn sample(&mut self, f: impl FnOnce() -> String) {
        // keep a few early cases and a logarithmically spaced selection of later ones
        self.sample_calls += 1;
        let n = self.sample_calls;
        if self.samples.len() < 12 && (n <= 3 || n.is_power_of_two() || n % 1_000_003 == 0) { self.samples.push(f()); }
    }
    pub fn tr(&self, f: impl FnOnce() -> String) { if self.trace { println!("TRACE case={} {}", self.case_no, f()); } }
    pub fn violation(&mut self, monitor: &str, key: &str, detail: String) {
        if let Some(k) = self.ctx.only_case { if k != self.case_no { return; } }
        let full = format!("{}|{}", monitor, key);
        match self.viols.get_mut(&full) {
            Some(v) => { v.count += 1; if detail.len() < v.detail.len() { v.detail = detail; v.case_no = self.case_no; } }
            None => { if self.viols.len() < 200 { self.viols.insert(full, Viol { monitor: monitor.into(), key: key.into(), detail, case_no: self.case_no, count: 1 }); } }
        }
    }
    pub fn exhaustive(&mut self, what: &str) { self.exhaustive.push(what.to_string()); }
    pub fn note(&mut self, what: String) { if self.notes.len() < 50 { self.notes.push(what); } }

    pub fn to_json(&self) -> String {
        let mut o = String::new();
        o.push_str("{");
        o.push_str(&format!("\"prop\":{},\"tier\":{},\"seed\":{},\"shard\":{},\"nshards\":{},\"build\":{},\"mode\":{},",
            jstr(&self.ctx.prop), jstr(if self.ctx.thorough() { "thorough" } else { "quick" }), self.ctx.seed, self.ctx.shard, self.ctx.nshards,
            jstr(&self.ctx.build), jstr(&format!("{:?}", self.ctx.mode).to_lowercase())));
        o.push_str(&format!("\"evaluations\":{},\"api_calls\":{},\"nontrivial_enum\":{},\"nontrivial_hashed\":{},\"wall_s\":{:.3},",
            self.evaluations, self.api_calls, self.nontrivial, self.hashes.len(), self.start.elapsed().as_secs_f64()));
        o.push_str("\"counters\":{");
        o.push_str(&self.counters.iter().map(|(k, v)| format!("{}:{}", jstr(k), v)).collect::<Vec<_>>().join(","));
        o.push_str("},\"states\":[");
        let mut st: Vec<&String> = self.states.values().collect(); st.sort();
        o.push_str(&st.iter().map(|s| jstr(s)).collect::<Vec<_>>().join(","));
        o.push_str("],\"samples\":[");
        o.push_str(&self.samples.iter().map(|s| jstr(s)).collect::<Vec<_>>().join(","));
        o.push_str("],\"exhaustive\":[");
        o.push_str(&self.exhaustive.iter().map(|s| jstr(s)).collect::<Vec<_>>().join(","));
        o.push_str("],\"notes\":[");
        o.push_str(&self.notes.iter().map(|s| jstr(s)).collect::<Vec<_>>().join(","));
        o.push_str("],\"digests\":{");
        o.push_str(&self.digests.iter().map(|(k, v)| format!("{}:[\"{:016x}\",{}]", jstr(k), v.0, v.1)).collect::<Vec<_>>().join(","));
        o.push_str("},\"violations\":[");
        o.push_str(&self.viols.values().map(|v| format!("{{\"monitor\":{},\"key\":{},\"detail\":{},\"case_no\":{},\"count\":{}}}",
            jstr(&v.monitor), jstr(&v.key), jstr(&v.detail), v.case_no, v.count)).collect::<Vec<_>>().join(","));
        o.push_str("]");
        if self.ctx.mode == Mode::Miri || self.hashes.len() <= 2000 {
            let mut hs: Vec<&u64> = self.hashes.iter().collect(); hs.sort();
            o.push_str(",\"hashes_inline\":[");
            o.push_str(&hs.iter().map(|h| format!("\"{:016x}\"", h)).collect::<Vec<_>>().join(","));
            o.push_str("]");
        }
        o.push_str("}");
        o
    }
    pub fn hashes_bytes(&self) -> Vec<u8> { let mut v = Vec::with_capacity(self.hashes.len() * 8); for h in self.hashes.iter() { v.extend_from_slice(&h.to_le_bytes()); } v }
}
