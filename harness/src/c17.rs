// C17 Observable behaviour is identical across build configurations.
// The same deterministic corpus is executed by the same harness source linked against each build; every
// logical result (return tuples + destination prefix reported as written) is folded into one digest per
// (section, encoding). bin/check compares the digests of every build with those of `rel`; on a mismatch it
// re-runs both builds on that section with --dump and reports the first differing case.
use crate::alpha::*;
use crate::drive::*;
use crate::ev::*;
use crate::hist::*;
use crate::memfn::*;
use crate::model::{EItem, Item};
use crate::util::*;
use encoding_rs::*;

pub struct Tx { cur: String, h: H, n: u64, dump: bool }
impl Tx {
    fn begin(&mut self, section: String) { self.cur = section; self.h = H::new(); self.n = 0; }
    fn case(&mut self, case_hash: u64, desc: impl FnOnce() -> String) { self.n += 1; self.h.u(case_hash); if self.dump { println!("D\t{}\t{}\t{:016x}\t{}", self.cur, self.n, case_hash, desc()); } }
    fn end(&mut self, ev: &mut Ev) { ev.digests.insert(self.cur.clone(), (self.h.get(), self.n)); }
}
fn h_items(h: &mut H, items: &[Item]) { for i in items { match i { Item::C(c) => { h.u(*c as u64); } Item::E(a, b) => { h.u(0xE000_0000 + *a as u64).u(*b as u64); } } } }
fn h_eitems(h: &mut H, items: &[EItem]) { for i in items { match i { EItem::B(b) => { h.b(b); } EItem::U(c) => { h.u(0xFFFF_0000_0000 + *c as u64); } } } }
fn h_calls(h: &mut H, calls: &[Call]) { for c in calls { h.u(c.read as u64).u(c.written as u64).u(c.had as u64); match c.res { Res::InputEmpty => h.u(1), Res::OutputFull => h.u(2), Res::Malformed(a, b) => h.u(3).u(a as u64).u(b as u64), Res::Unmappable(u) => h.u(4).u(u as u64) }; } }

pub fn run(ctx: &Ctx, ev: &mut Ev) {
    let mut drv = Driver::new();
    let th = ctx.thorough();
    let tiny = !ctx.native();
    let dump = std::env::var("ERV_DUMP").is_ok();
    let mut tx = Tx { cur: String::new(), h: H::new(), n: 0, dump };
    // (1) every scalar value through every encoder from UTF-8 and UTF-16 (quick: BMP + 1/16 of the rest + Big5's astral window)
    if !tiny { for &enc in ALL.iter() {
        let sec = format!("enc1:{}", enc.name());
        if !ctx.want(&sec) && !ctx.want("enc1") { continue; }
        if !ev.mine() { continue; }
        tx.begin(sec);
        for cp in (0..0x110000u32).filter(|c| !(0xD800..0xE000).contains(c)) {
            if !th && cp > 0xFFFF && cp % 16 != 3 && !((0x2008A..=0x2F8A6).contains(&cp) && enc == BIG5) { continue; }
            ev.case(); ev.nontrivial_enum();
            let atoms = [cp];
            let mut h = H::new();
            for src16 in [false, true] { let c = EncCase::whole(enc, src16, cp % 2 == 0, &atoms); let o = drv.run_enc(&c, ev); h_eitems(&mut h, &o.items); h.b(&o.bytes).u(o.had_any as u64); h_calls(&mut h, &o.calls); }
            tx.case(h.get(), || format!("U+{:04X}", cp));
        }
        tx.end(ev);
    } }
    // (1b) all ordered pairs over the per-encoder class alphabet (state transitions: escapes, unmappable after a two-byte character)
    if !tiny { for &enc in ALL.iter() {
        let sec = format!("enc2:{}", enc.name());
        if !ctx.want(&sec) && !ctx.want("enc2") { continue; }
        if !ev.mine() { continue; }
        if enc.output_encoding() == UTF_8 && enc != UTF_8 { continue; }
        tx.begin(sec);
        let alpha = encoder_alpha(enc);
        for a in alpha.iter() { for b in alpha.iter() {
            if !th && !encoder_families().contains(&enc) && (a + b) % 4 != 0 { continue; }
            ev.case(); ev.nontrivial_enum();
            let atoms = [*a, *b];
            let mut h = H::new();
            for src16 in [false, true] { let c = EncCase::whole(enc, src16, (a + b) % 2 == 0, &atoms); let o = drv.run_enc(&c, ev); h_eitems(&mut h, &o.items); h.b(&o.bytes).u(o.had_any as u64).u(o.fails.len() as u64); h_calls(&mut h, &o.calls); }
            tx.case(h.get(), || format!("U+{:04X} U+{:04X}", a, b));
        } }
        tx.end(ev);
    } }
    // (2) all 2-byte strings through every decoder (both sinks)
    if !tiny { for &enc in ALL.iter() {
        let sec = format!("dec2:{}", enc.name());
        if !ctx.want(&sec) && !ctx.want("dec2") { continue; }
        if !ev.mine() { continue; }
        tx.begin(sec);
        for a in 0..=255u8 { for b in 0..=255u8 {
            if !th && enc.is_single_byte() && (a as usize + b as usize) % 4 != 0 { continue; }
            ev.case(); ev.nontrivial_enum();
            let s = [a, b]; let mut h = H::new();
            let o = drv.run_dec(&DecCase::whole(enc, Bom::Off, Sink::U16, false, &s), ev); h_items(&mut h, &o.items); h_calls(&mut h, &o.calls);
            let o = drv.run_dec(&DecCase::whole(enc, Bom::Sniff, Sink::U8, true, &s), ev); h_items(&mut h, &o.items); h_calls(&mut h, &o.calls);
            tx.case(h.get(), || hex(&s));
        } }
        tx.end(ev);
    } }
    // (3) seeded histories (fixed part + VERIF_SEED part), sections by kind so that shards split them
    let rounds = if tiny { 1 } else if th { 24 } else { 8 };
    for part in 0..rounds {
        for (kind, name) in ["hist-dec", "hist-enc", "validators", "mem", "classify"].iter().enumerate() {
            let sec = format!("{}:{}", name, part);
            if !ctx.want(&sec) && !ctx.want(name) { continue; }
            if !ev.mine() { continue; }
            tx.begin(sec);
            // even parts: corpus independent of VERIF_SEED; odd parts: seeded
            let mut r = if part % 2 == 0 { Rng::from_parts(0xC17, name, 0, part as u64) } else { Rng::from_parts(ctx.seed, name, 0, part as u64) };
            let n = if tiny { 40 } else { 20_000 };
            for i in 0..n {
                ev.case();
                let mut h = H::new();
                match kind {
                    0 => { let enc = ALL[r.below(40)]; let stream = random_stream(&mut r, enc, if i % 40 == 0 { 16 } else { 4 }); let stream = &stream[..stream.len().min(1500)]; let sink = SINKS[r.below(4)]; let cuts = random_cuts(&mut r, stream.len()); let caps = random_caps(&mut r, dec_min_cap(sink), true);
                        let case = DecCase { enc, bom: BOMS[r.below(3)], sink, repl: r.chance(2), stream, cuts: &cuts, last_sep: r.chance(2), caps: &caps, fill: 0xA5, src_align: r.below(16), dst_align: r.below(16), filler: r.below(16) };
                        let o = drv.run_dec(&case, ev); h_items(&mut h, &o.items); h_calls(&mut h, &o.calls); h.s(o.final_enc.map(|e| e.name()).unwrap_or("?")); h.u(o.fails.len() as u64);
                        ev.nontrivial_hash(case.hash()); tx.case(h.get(), || format!("{} -> {} | [{}]", case.describe(), fmt_calls(&o.calls), fmt_items(&o.items))); }
                    1 => { let enc = ALL[r.below(40)]; let src16 = r.chance(2); let t = random_text(&mut r, if i % 40 == 0 { 10 } else { 3 }, src16); let t = &t[..t.len().min(600)];
                        if t.windows(2).any(|w| (0xD800..0xDC00).contains(&w[0]) && (0xDC00..0xE000).contains(&w[1])) { continue; }
                        let repl = r.chance(2); let cuts = random_cuts(&mut r, t.len()); let caps = random_caps(&mut r, enc_min_cap(repl), true);
                        let case = EncCase { enc, src16, vec_sink: !src16 && r.chance(3), repl, atoms: t, cuts: &cuts, last_sep: r.chance(2), caps: &caps, fill: 0xA5, src_align: r.below(16), dst_align: r.below(16) };
                        let o = drv.run_enc(&case, ev); h_eitems(&mut h, &o.items); h.b(&o.bytes); h_calls(&mut h, &o.calls); h.u(o.fails.len() as u64);
                        ev.nontrivial_hash(case.hash()); tx.case(h.get(), || format!("{} -> {} | {}", case.describe(), fmt_calls(&o.calls), hex(&o.bytes))); }
                    2 => { let src = gen_src(&mut r, SrcKind::Bytes, if i % 50 == 0 { 30 } else { 4 }); let al = r.below(16); let b = drv.src8.carve_from(&src.bytes, al);
                        // (a panic in one build only is a difference too: it is folded into the digest instead of killing the shard)
                        match std::panic::catch_unwind(|| [Encoding::utf8_valid_up_to(b), Encoding::ascii_valid_up_to(b), Encoding::iso_2022_jp_ascii_valid_up_to(b), encoding_rs::mem::utf8_latin1_up_to(b)]) { Ok(v) => { for x in v { h.u(x as u64); } } Err(_) => { h.u(0xDEAD_0001); } }
                        let u = gen_src(&mut r, SrcKind::Units, 3); let ub = drv.src16.carve_from(&u.units, al & !1);
                        match std::panic::catch_unwind(|| encoding_rs::mem::utf16_valid_up_to(ub)) { Ok(x) => { h.u(x as u64); } Err(_) => { h.u(0xDEAD_0002); } }
                        ev.api_calls += 5; ev.nontrivial_hash(H::new().b(&src.bytes).u16s(&u.units).get()); tx.case(h.get(), || format!("bytes {} units [{}]", hexs(&src.bytes), hex16(&u.units))); }
                    3 => { let f = ALL_MEM[r.below(ALL_MEM.len())]; let src = gen_src(&mut r, f.src_kind(), if i % 100 == 0 { 30 } else { 4 }); let dl = gen_dst_len(&mut r, f, src.len(f)); let (sa, da) = (r.below(16), r.below(16));
                        if expect(f, &src, dl).panics { continue; }
                        let o = drv.run_mem(f, &src, dl, 0xA5, sa, da, 1); ev.api_calls += 1;
                        h.u(o.ret.0 as u64).u(o.ret.1 as u64).u(o.panic.is_some() as u64);
                        let w = if o.ret.1 >= 0 { o.ret.1 as usize } else { 0 };
                        if f.dst_kind() == DstKind::D16 || f.dst_kind() == DstKind::InPlace { let n = if f.dst_kind() == DstKind::InPlace { o.dst16.len() } else { w.min(o.dst16.len()) }; h.u16s(&o.dst16[..n]); } else { h.b(&o.dst8[..w.min(o.dst8.len())]); }
                        ev.nontrivial_hash(H::new().s(f.name()).b(&src.bytes).u16s(&src.units).u(dl as u64).get()); tx.case(h.get(), || format!("{} {} dst_len={} -> {:?}", f.name(), src.describe(f), dl, o.ret)); }
                    _ => { let src = gen_src(&mut r, SrcKind::Bytes, 4); let al = r.below(16); let b = drv.src8.carve_from(&src.bytes, al);
                        use encoding_rs::mem::*;
                        match std::panic::catch_unwind(|| [is_ascii(b) as u64, is_utf8_latin1(b) as u64, is_utf8_bidi(b) as u64, check_utf8_for_latin1_and_bidi(b) as u64]) { Ok(v) => { for x in v { h.u(x); } } Err(_) => { h.u(0xDEAD_0003); } }
                        if let Ok(s) = std::str::from_utf8(b) { match std::panic::catch_unwind(|| [is_str_latin1(s) as u64, is_str_bidi(s) as u64, check_str_for_latin1_and_bidi(s) as u64, str_latin1_up_to(s) as u64]) { Ok(v) => { for x in v { h.u(x); } } Err(_) => { h.u(0xDEAD_0004); } } }
                        let u = gen_src(&mut r, SrcKind::Units, 3); let ub = drv.src16.carve_from(&u.units, al & !1);
                        match std::panic::catch_unwind(|| [is_basic_latin(ub) as u64, is_utf16_latin1(ub) as u64, is_utf16_bidi(ub) as u64, check_utf16_for_latin1_and_bidi(ub) as u64]) { Ok(v) => { for x in v { h.u(x); } } Err(_) => { h.u(0xDEAD_0005); } }
                        ev.api_calls += 12; ev.nontrivial_hash(H::new().b(&src.bytes).u16s(&u.units).u(5).get()); tx.case(h.get(), || format!("bytes {} units [{}]", hexs(&src.bytes), hex16(&u.units))); }
                }
            }
            tx.end(ev);
        }
    }
    // (3b) every (lead byte, second byte) cell of the UTF-8 validators / converters, completed by continuation bytes, short
    // (scalar path) and behind a 61-byte pad (SIMD-validator path unless the scalar path is forced): one digest section
    if (ctx.want("utf8-cells") || ctx.part.is_empty()) && !tiny && ev.mine() {
        tx.begin("utf8-cells".into());
        for a in 0xC0..=0xFFu32 { for b in 0..=0xFFu32 { for (ti, tail) in [&[][..], &[0x80u8][..], &[0xBF], &[0x80, 0x80], &[0xBF, 0xBF], &[0x80, 0x61]].iter().enumerate() { for pad in [0usize, 61] {
            ev.case(); ev.nontrivial_enum();
            let mut v = vec![b'a'; pad]; v.push(a as u8); v.push(b as u8); v.extend_from_slice(tail); v.push(b'z');
            let bsl = drv.src8.carve_from(&v, (a as usize + ti) % 16);
            let mut h = H::new();
            match std::panic::catch_unwind(|| { let mut d16 = [0u16; 80]; let n = encoding_rs::mem::convert_utf8_to_utf16(bsl, &mut d16); (Encoding::utf8_valid_up_to(bsl), encoding_rs::mem::utf8_latin1_up_to(bsl), encoding_rs::mem::is_utf8_bidi(bsl), n, d16) }) {
                Ok((x, y, z, n, d16)) => { h.u(x as u64).u(y as u64).u(z as u64).u16s(&d16[..n]); } Err(_) => { h.u(0xDEAD_0006); } }
            ev.api_calls += 4;
            tx.case(h.get(), || format!("bytes {}", hexs(&v)));
        } } } }
        tx.end(ev);
    }
    // (4) label resolution and metadata are configuration independent too
    if ctx.want("labels") && ev.mine() {
        tx.begin("labels".into());
        for l in crate::c13::labels().list.iter() { ev.case(); let g = Encoding::for_label(l).map(|e| e.name()).unwrap_or("-"); tx.case(H::new().s(g).get(), || format!("{:?} -> {}", String::from_utf8_lossy(l), g)); }
        for e in ALL.iter() { ev.case(); ev.nontrivial_enum(); tx.case(H::new().s(e.name()).u(e.is_ascii_compatible() as u64).u(e.is_single_byte() as u64).u(e.can_encode_everything() as u64).s(e.output_encoding().name()).get(), || e.name().to_string()); }
        tx.end(ev);
    }
    ev.sample(|| format!("digests: {:?}", ev_digest_sample(&tx)));
}
fn ev_digest_sample(tx: &Tx) -> String { format!("last section {} with {} cases", tx.cur, tx.n) }
