// C02 Decoder results do not depend on how input and output are chunked.
// Oracle: the same stream through the same kind of decoder in ONE call with an ample buffer
// (the crate itself under an equivalent history); UTF-8 and UTF-16 sinks must agree.
use crate::drive::*;
use crate::ev::*;
use crate::hist::*;
use crate::model::Item;
use crate::util::*;
use encoding_rs::*;

pub struct Ref { pub out: DecOut, pub other_sink_scalars: Vec<u32> }

pub fn reference(drv: &mut Driver, ev: &mut Ev, c: &DecCase) -> Ref {
    let w = DecCase::whole(c.enc, c.bom, c.sink, c.repl, c.stream);
    let out = drv.run_dec(&w, ev);
    let other = DecCase::whole(c.enc, c.bom, if c.sink == Sink::U16 { Sink::U8 } else { Sink::U16 }, c.repl, c.stream);
    let o2 = drv.run_dec(&other, ev);
    Ref { out, other_sink_scalars: o2.scalars() }
}

/// Compare one chunked history with the single-call reference.
pub fn compare(ev: &mut Ev, case: &DecCase, out: &DecOut, r: &Ref) {
    ev.count("chunk-diff.histories");
    let key = |k: &str| format!("{}:{:?}:{}", crate::c01::family(case.enc), case.sink, k);
    if r.out.fail_of(&[FailKind::Panic, FailKind::Stuck]).is_some() { ev.count("chunk-diff.reference-run-failed"); return; }
    if let Some(f) = out.fail_of(&[FailKind::Panic, FailKind::Stuck]) {
        ev.violation("chunk-diff", &key(&format!("{:?}", f.0)), format!("chunked history did not complete ({:?}: {}) although the single call does | {} | calls: {}", f.0, f.1, case.describe(), fmt_calls(&out.calls)));
        return;
    }
    for c in out.calls.iter() { ev.count(match c.res { Res::InputEmpty => "result.InputEmpty", Res::OutputFull => "result.OutputFull", Res::Malformed(..) => "result.Malformed", _ => "result.other" }); }
    if out.items != r.out.items {
        let k = out.items.iter().zip(r.out.items.iter()).position(|(a, b)| a != b).unwrap_or(out.items.len().min(r.out.items.len()));
        let kind = match (out.items.get(k), r.out.items.get(k)) { (Some(Item::E(..)), Some(Item::E(..))) => "span", (Some(Item::C(_)), Some(Item::C(_))) => "text", _ => "structure" };
        ev.violation("chunk-diff", &key(kind), format!("chunked result differs from the single call at item {}: chunked [{}] single [{}] | {} | calls: {}", k, fmt_items(&out.items), fmt_items(&r.out.items), case.describe(), fmt_calls(&out.calls)));
    } else if out.had_any != r.out.had_any {
        ev.violation("chunk-diff", &key("had_errors"), format!("had_errors {} (chunked) vs {} (single call) | {}", out.had_any, r.out.had_any, case.describe()));
    } else if out.final_enc != r.out.final_enc {
        // Decoder::encoding() is C10's clause, not C02's: recorded only
        ev.count("chunk-diff.encoding()-differs(C10)");
    }
    ev.count("sink-diff.histories");
    if out.scalars() != r.other_sink_scalars && r.out.scalars() == r.other_sink_scalars {
        ev.violation("sink-diff", &key("utf8-vs-utf16"), format!("UTF-8 and UTF-16 output forms denote different scalar sequences | {}", case.describe()));
    }
}
pub fn nontrivial(case: &DecCase, out: &DecOut) -> bool {
    (out.calls.len() > 1) && (case.stream.iter().any(|b| *b >= 0x80) || out.items.iter().any(|i| matches!(i, Item::E(..))) || out.had_any)
}

pub fn run(ctx: &Ctx, ev: &mut Ev) {
    let mut drv = Driver::new();
    let th = ctx.thorough();
    let small = !ctx.native();
    // bounded-exhaustive histories per decoder family
    if ctx.want("enum") {
        let sp = DecSpace {
            encs: families(), small_alpha: !th || small, maxlen: if small { 2 } else if th { 4 } else { 3 }, utf16_extra: 1,
            boms: vec![Bom::Off, Bom::Sniff], sinks: vec![Sink::U8, Sink::U16], repls: vec![false, true],
            cap_offsets: vec![vec![0], vec![1], vec![2], vec![3], vec![0, 6]], last_seps: vec![false, true],
            stride: if small { 97 } else if th { 3 } else { 1 }, prefixes: vec![], fills: vec![0xA5], token_streams: if small { (0, 0) } else { (3, 2) }
        };
        ev.note(format!("enum: {}", sp.describe()));
        let mut rf: Option<Ref> = None;
        enum_dec(ctx, ev, &sp, |case, new_group, ev| {
            if new_group { rf = Some(reference(&mut drv, ev, case)); }
            let tr = ev.case();
            let out = drv.run_dec(case, ev);
            if tr { println!("TRACE {} | calls: {} | items: [{}] | single-call items: [{}]", case.describe(), fmt_calls(&out.calls), fmt_items(&out.items), fmt_items(&rf.as_ref().unwrap().out.items)); }
            compare(ev, case, &out, rf.as_ref().unwrap());
            if nontrivial(case, &out) { ev.nontrivial_enum(); }
            ev.state(H::new().s(crate::c01::family(case.enc)).u(case.sink as u64).u(case.repl as u64).u(out.calls.len().min(6) as u64).get(), || format!("{} {:?} repl={} calls={}", crate::c01::family(case.enc), case.sink, case.repl, out.calls.len().min(6)));
            ev.sample(|| format!("{} -> calls {}", case.describe(), fmt_calls(&out.calls)));
        });
        // all 28 single-byte tables + str/String sinks on a reduced enumeration
        let sp2 = DecSpace {
            encs: ALL.iter().copied().collect(), small_alpha: true, maxlen: if small { 2 } else { 3 }, utf16_extra: 1,
            boms: vec![Bom::Off, Bom::Remove], sinks: vec![Sink::Str, Sink::String, Sink::U16], repls: vec![true, false],
            cap_offsets: vec![vec![0], vec![1, 3]], last_seps: vec![false, true], stride: if small { 53 } else if th { 1 } else { 3 }, prefixes: vec![], fills: vec![0x00], token_streams: (0, 0)
        };
        ev.note(format!("enum2: {}", sp2.describe()));
        enum_dec(ctx, ev, &sp2, |case, new_group, ev| {
            if new_group { rf = Some(reference(&mut drv, ev, case)); }
            let tr = ev.case();
            let out = drv.run_dec(case, ev);
            if tr { println!("TRACE {} | calls: {} | items: [{}] | single-call items: [{}]", case.describe(), fmt_calls(&out.calls), fmt_items(&out.items), fmt_items(&rf.as_ref().unwrap().out.items)); }
            compare(ev, case, &out, rf.as_ref().unwrap());
            if nontrivial(case, &out) { ev.nontrivial_enum(); }
        });
    }
    // BOM look-alike prefixes (every string of <= 3 symbols over EF BB BF FE FF 41 80) in the sniffing and removing modes:
    // every cut set, so that every withheld partial BOM is replayed at every chunk boundary, for every decoder family
    if ctx.want("bomlike") && !small {
        let mut fam = families();
        if !fam.contains(&REPLACEMENT) { fam.push(REPLACEMENT); }
        let sp3 = DecSpace {
            encs: fam, small_alpha: true, maxlen: 1, utf16_extra: 1,
            boms: vec![Bom::Sniff, Bom::Remove], sinks: vec![Sink::U8, Sink::U16], repls: vec![false, true],
            cap_offsets: vec![vec![0], vec![1], vec![40]], last_seps: vec![false, true], stride: if th { 1 } else { 2 }, prefixes: strings_over(&crate::alpha::BOM_ALPHA, 3), fills: vec![0xA5], token_streams: (0, 0)
        };
        ev.note(format!("bomlike: {}", sp3.describe()));
        let mut rf: Option<Ref> = None;
        enum_dec(ctx, ev, &sp3, |case, new_group, ev| {
            if new_group { rf = Some(reference(&mut drv, ev, case)); }
            let tr = ev.case();
            let out = drv.run_dec(case, ev);
            if tr { println!("TRACE {} | calls: {} | items: [{}] | single-call items: [{}]", case.describe(), fmt_calls(&out.calls), fmt_items(&out.items), fmt_items(&rf.as_ref().unwrap().out.items)); }
            compare(ev, case, &out, rf.as_ref().unwrap());
            if nontrivial(case, &out) { ev.nontrivial_enum(); }
        });
    }
    // seeded random histories on long streams (cuts inside SIMD strides, varied capacities)
    if ctx.want("random") {
        let mut r = ctx.rng(2);
        let n = ctx.budget(400_000, 12_000_000);
        for i in 0..n {
            let enc = ALL[r.below(40)];
            let stream = random_stream(&mut r, enc, if i % 40 == 0 { 30 } else { 5 });
            let stream = if stream.len() > 3000 { &stream[..3000] } else { &stream[..] };
            let sink = SINKS[r.below(4)];
            let cuts = random_cuts(&mut r, stream.len());
            let caps = random_caps(&mut r, dec_min_cap(sink), true);
            let case = DecCase { enc, bom: BOMS[r.below(3)], sink, repl: r.chance(2), stream, cuts: &cuts, last_sep: r.chance(2), caps: &caps, fill: 0xA5, src_align: r.below(16), dst_align: r.below(16), filler: r.below(16) };
            let rf = reference(&mut drv, ev, &case);
            let tr = ev.case();
            let out = drv.run_dec(&case, ev);
            if tr { println!("TRACE {} | calls: {} | items: [{}] | single-call items: [{}]", case.describe(), fmt_calls(&out.calls), fmt_items(&out.items), fmt_items(&rf.out.items)); }
            compare(ev, &case, &out, &rf);
            if nontrivial(&case, &out) { ev.nontrivial_hash(case.hash()); }
            ev.sample(|| format!("{} -> {} calls", case.describe(), out.calls.len()));
        }
    }
}
