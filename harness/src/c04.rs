// C04 Encoder results do not depend on chunking or on UTF-8 vs UTF-16 input form.
// Oracle: one call on the whole text with an ample buffer; UTF-8-source run vs UTF-16-source run.
use crate::alpha::*;
use crate::drive::*;
use crate::ev::*;
use crate::hist::*;
use crate::model::EItem;
use crate::util::*;
use encoding_rs::*;

pub struct Ref { pub out: EncOut, pub other_src: Option<EncOut> }
pub fn reference(drv: &mut Driver, ev: &mut Ev, c: &EncCase) -> Ref {
    let w = EncCase::whole(c.enc, c.src16, c.repl, c.atoms);
    let out = drv.run_enc(&w, ev);
    let lone = c.atoms.iter().any(|a| is_lone(*a));
    let other_src = if lone { None } else { let o = EncCase::whole(c.enc, !c.src16, c.repl, c.atoms); Some(drv.run_enc(&o, ev)) };
    Ref { out, other_src }
}
pub fn compare(ev: &mut Ev, case: &EncCase, out: &EncOut, r: &Ref) {
    ev.count("chunk-diff.histories");
    let key = |k: &str| format!("{}:{}:{}", crate::c01::ofam(case.enc), if case.src16 { "utf16" } else { "utf8" }, k);
    if r.out.fail_of(&[FailKind::Panic, FailKind::Stuck]).is_some() { ev.count("chunk-diff.reference-run-failed"); return; }
    if let Some(f) = out.fail_of(&[FailKind::Panic, FailKind::Stuck]) {
        ev.violation("chunk-diff", &key(&format!("{:?}", f.0)), format!("chunked history did not complete ({:?}: {}) although the single call does | {} | calls: {}", f.0, f.1, case.describe(), fmt_calls(&out.calls)));
        return;
    }
    for c in out.calls.iter() { ev.count(match c.res { Res::InputEmpty => "result.InputEmpty", Res::OutputFull => "result.OutputFull", Res::Unmappable(..) => "result.Unmappable", _ => "result.other" }); }
    if out.bytes != r.out.bytes {
        // canonical key for the surrogate-pair case: UTF-16 source, pair in the text, single-byte encoder
        let pair = case.src16 && case.atoms.iter().any(|a| *a > 0xFFFF);
        ev.violation("chunk-diff", &key(if pair { "bytes(text-has-surrogate-pair)" } else { "bytes" }), format!("chunked bytes {} differ from the single call {} | {} | calls: {}", hex(&out.bytes), hex(&r.out.bytes), case.describe(), fmt_calls(&out.calls)));
    } else if out.items != r.out.items {
        ev.violation("chunk-diff", &key("unmappable-reports"), format!("chunked [{}] vs single call [{}] | {}", fmt_eitems(&out.items), fmt_eitems(&r.out.items), case.describe()));
    } else if out.had_any != r.out.had_any {
        ev.violation("chunk-diff", &key("had_unmappables"), format!("had_unmappables {} (chunked) vs {} (single call) | {}", out.had_any, r.out.had_any, case.describe()));
    }
    if let Some(o) = &r.other_src {
        ev.count("source-form-diff.histories");
        if o.fail_of(&[FailKind::Panic, FailKind::Stuck]).is_none() && (o.bytes != out.bytes || unmappables(&o.items) != unmappables(&out.items)) {
            ev.violation("source-form-diff", &key("utf8-vs-utf16"), format!("same text gives {} from this source form but {} from the other | {}", hex(&out.bytes), hex(&o.bytes), case.describe()));
        }
    }
}
pub fn unmappables(items: &[EItem]) -> Vec<u32> { items.iter().filter_map(|i| if let EItem::U(c) = i { Some(*c) } else { None }).collect() }
pub fn nontrivial(case: &EncCase, out: &EncOut) -> bool { out.calls.len() > 1 && case.atoms.iter().any(|a| *a >= 0x80 || *a == 0x1B || *a == 0x0E) }

pub fn run(ctx: &Ctx, ev: &mut Ev) {
    let mut drv = Driver::new();
    let th = ctx.thorough();
    let small = !ctx.native();
    if ctx.want("enum") {
        let mut alpha: Vec<u32> = if th { SCALARS.to_vec() } else { SCALARS_SMALL.to_vec() };
        alpha.push(0xD800); alpha.push(0xDC00);
        let sp = EncSpace {
            encs: encoder_families(), alpha, maxlen: if small { 2 } else { 3 }, src16s: vec![false, true], vec_sinks: vec![false, true], repls: vec![false, true],
            cap_offsets: vec![vec![0], vec![1], vec![2], vec![3], vec![4], vec![6], vec![0, 9]], last_seps: vec![false, true], stride: if small { 31 } else if th { 2 } else { 1 }, fills: vec![0x5A], per_encoder: true
        };
        ev.note(format!("enum: {}", sp.describe()));
        let mut rf: Option<Ref> = None;
        enum_enc(ctx, ev, &sp, |case, new_group, ev| {
            if new_group { rf = Some(reference(&mut drv, ev, case)); }
            let tr = ev.case();
            let out = drv.run_enc(case, ev);
            if tr { println!("TRACE {} | calls: {} | items [{}] | single call [{}]", case.describe(), fmt_calls(&out.calls), fmt_eitems(&out.items), fmt_eitems(&rf.as_ref().unwrap().out.items)); }
            compare(ev, case, &out, rf.as_ref().unwrap());
            if nontrivial(case, &out) { ev.nontrivial_enum(); }
            ev.state(H::new().s(crate::c01::ofam(case.enc)).u(case.src16 as u64).u(case.repl as u64).u(out.calls.len().min(6) as u64).get(), || format!("{} src16={} repl={} calls={}", crate::c01::ofam(case.enc), case.src16, case.repl, out.calls.len().min(6)));
            ev.sample(|| format!("{} -> calls {}", case.describe(), fmt_calls(&out.calls)));
        });
        // all 40 encodings on length <= 2 texts
        let mut alpha2: Vec<u32> = SCALARS_SMALL.to_vec(); alpha2.push(0xDBFF); alpha2.push(0x10FFFF);
        let sp2 = EncSpace { encs: ALL.iter().copied().collect(), alpha: alpha2, maxlen: 2, src16s: vec![true, false], vec_sinks: vec![false], repls: vec![false, true],
            cap_offsets: vec![vec![0], vec![1], vec![2], vec![5]], last_seps: vec![false, true], stride: if small { 7 } else { 1 }, fills: vec![0x5A], per_encoder: true };
        ev.note(format!("enum2: {}", sp2.describe()));
        enum_enc(ctx, ev, &sp2, |case, new_group, ev| {
            if new_group { rf = Some(reference(&mut drv, ev, case)); }
            let tr = ev.case();
            let out = drv.run_enc(case, ev);
            if tr { println!("TRACE {} | calls: {} | items [{}] | single call [{}]", case.describe(), fmt_calls(&out.calls), fmt_eitems(&out.items), fmt_eitems(&rf.as_ref().unwrap().out.items)); }
            compare(ev, case, &out, rf.as_ref().unwrap());
            if nontrivial(case, &out) { ev.nontrivial_enum(); }
        });
    }
    // surrogate neighbourhood (UTF-16 source): both neighbours of the surrogate range next to unpaired surrogates, all cuts
    if ctx.want("surr") && !small {
        let sp3 = EncSpace { encs: encoder_families(), alpha: vec![0x61, 0xE9, 0xD7FF, 0xD800, 0xDBFF, 0xDC00, 0xDFFF, 0xE000, 0x1F4A9], maxlen: 3, src16s: vec![true], vec_sinks: vec![false], repls: vec![false, true],
            cap_offsets: vec![vec![0], vec![1], vec![3]], last_seps: vec![false], stride: 1, fills: vec![0x5A], per_encoder: false };
        ev.note(format!("surr: {}", sp3.describe()));
        let mut rf: Option<Ref> = None;
        enum_enc(ctx, ev, &sp3, |case, new_group, ev| {
            if new_group { rf = Some(reference(&mut drv, ev, case)); }
            let tr = ev.case();
            let out = drv.run_enc(case, ev);
            if tr { println!("TRACE {} | calls: {} | items [{}] | single call [{}]", case.describe(), fmt_calls(&out.calls), fmt_eitems(&out.items), fmt_eitems(&rf.as_ref().unwrap().out.items)); }
            compare(ev, case, &out, rf.as_ref().unwrap());
            if nontrivial(case, &out) { ev.nontrivial_enum(); }
        });
    }
    if ctx.want("random") {
        let mut r = ctx.rng(4);
        let n = ctx.budget(300_000, 10_000_000);
        for i in 0..n {
            let enc = ALL[r.below(40)];
            let src16 = r.chance(2);
            let t = random_text(&mut r, if i % 40 == 0 { 16 } else { 4 }, src16);
            let t = if t.len() > 1200 { &t[..1200] } else { &t[..] };
            if t.windows(2).any(|w| (0xD800..0xDC00).contains(&w[0]) && (0xDC00..0xE000).contains(&w[1])) { continue; }
            let repl = r.chance(2);
            let cuts = random_cuts(&mut r, t.len());
            let caps = random_caps(&mut r, enc_min_cap(repl), true);
            let case = EncCase { enc, src16, vec_sink: !src16 && r.chance(3), repl, atoms: t, cuts: &cuts, last_sep: r.chance(2), caps: &caps, fill: 0x5A, src_align: r.below(16), dst_align: r.below(16) };
            let rf = reference(&mut drv, ev, &case);
            let tr = ev.case();
            let out = drv.run_enc(&case, ev);
            if tr { println!("TRACE {} | calls: {} | items [{}] | single call [{}]", case.describe(), fmt_calls(&out.calls), fmt_eitems(&out.items), fmt_eitems(&rf.out.items)); }
            compare(ev, &case, &out, &rf);
            if nontrivial(&case, &out) { ev.nontrivial_hash(case.hash()); }
            ev.sample(|| format!("{} -> {} calls", case.describe(), out.calls.len()));
        }
    }
}
