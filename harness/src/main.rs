// erv: runtime monitors for encoding_rs. See /verif/DESIGN.md.
//   erv <Cxx> --tier quick|thorough --seed N --shard i/n --mode native|asan|vg|miri --build <name>
//       [--only-case K] [--part a,b] [--out file]
mod alpha;
mod arena;
mod drive;
mod ev;
mod hist;
mod model;
mod util;
mod memfn;

mod c01;
mod c02;
mod c03;
mod c04;
mod c05;
mod c06;
mod c07;
mod c08;
mod c09;
mod c10;
mod c11;
mod c12;
mod c13;
mod c14;
mod c15;
mod c16;
mod c17;
mod c18;
mod c19;
mod c20;
mod selftest;

use ev::*;

fn main() {
    let args: Vec<String> = std::env::args().collect();
    if args.len() < 2 { eprintln!("usage: erv <Cxx|selftest> [options]"); std::process::exit(3); }
    if args[1] == "merge-hashes" {
        // union of the 64-bit case hashes written by the shards: prints the number of distinct values
        let mut all: Vec<u64> = vec![];
        for f in args[2..].iter() { if let Ok(b) = std::fs::read(f) { for c in b.chunks_exact(8) { all.push(u64::from_le_bytes([c[0], c[1], c[2], c[3], c[4], c[5], c[6], c[7]])); } } }
        all.sort_unstable(); all.dedup();
        println!("{}", all.len());
        return;
    }
    let prop = args[1].clone();
    let mut ctx = Ctx { prop: prop.clone(), tier: Tier::Quick, seed: 1, shard: 0, nshards: 1, mode: Mode::Native, build: "rel".into(), only_case: None, part: String::new() };
    let mut out: Option<String> = None;
    let mut i = 2;
    while i < args.len() {
        let v = args.get(i + 1).cloned().unwrap_or_default();
        match args[i].as_str() {
            "--tier" => { ctx.tier = if v == "thorough" { Tier::Thorough } else { Tier::Quick }; i += 1; }
            "--seed" => { ctx.seed = v.parse().expect("seed"); i += 1; }
            "--shard" => { let mut it = v.split('/'); ctx.shard = it.next().unwrap().parse().unwrap(); ctx.nshards = it.next().unwrap().parse().unwrap(); i += 1; }
            "--mode" => { ctx.mode = match v.as_str() { "asan" => Mode::Asan, "vg" => Mode::Vg, "miri" => Mode::Miri, _ => Mode::Native }; i += 1; }
            "--build" => { ctx.build = v; i += 1; }
            "--only-case" => { ctx.only_case = Some(v.parse().expect("case")); i += 1; }
            "--part" => { ctx.part = v; i += 1; }
            "--out" => { out = Some(v); i += 1; }
            x => { eprintln!("unknown option {}", x); std::process::exit(3); }
        }
        i += 1;
    }
    // expected panics are caught by the drivers; keep stderr quiet
    std::panic::set_hook(Box::new(|_| {}));
    if ctx.build.contains("scalar") { encoding_rs::verif::force_scalar_utf8_validation(true); }
    if ctx.mode == Mode::Miri { encoding_rs::verif::force_scalar_utf8_validation(true); }
    // Watchdog: a call into the crate that never returns cannot be interrupted, so a helper thread watches the case
    // counter. No progress for a very long time (cases normally take microseconds) ends the process with exit code 96;
    // bin/check reports that as INCONCLUSIVE (a wall-clock observation is never turned into a violation) and does not
    // let the check pass.
    // (not under the UB interpreter: it reports a thread that outlives main as an error, and bin/check's per-shard
    // timeout already turns an interpreter run that never ends into an inconclusive shard)
    if ctx.mode != Mode::Miri {
        let limit: u64 = std::env::var("ERV_WATCHDOG_S").ok().and_then(|v| v.parse().ok()).unwrap_or(if ctx.mode == Mode::Native { 120 } else { 900 });
        let (p, t, sd, sh, n) = (prop.clone(), if ctx.thorough() { "thorough" } else { "quick" }, ctx.seed, ctx.shard, ctx.nshards);
        std::thread::spawn(move || {
            let mut last = u64::MAX; let mut since = std::time::Instant::now();
            loop {
                std::thread::sleep(std::time::Duration::from_secs(5));
                let cur = ev::PROGRESS.load(std::sync::atomic::Ordering::Relaxed);
                if cur != last { last = cur; since = std::time::Instant::now(); continue; }
                if since.elapsed().as_secs() >= limit {
                    println!("WATCHDOG no case finished for {} s after case {} ({} {} seed {} shard {}/{}): a call into the crate may not return; replay the following cases with --only-case", limit, cur, p, t, sd, sh, n);
                    std::process::exit(96);
                }
            }
        });
    }
    let mut ev = Ev::new(ctx.clone());
    match prop.as_str() {
        "selftest" => selftest::run(&ctx, &mut ev),
        "C01" => c01::run(&ctx, &mut ev),
        "C02" => c02::run(&ctx, &mut ev),
        "C03" => c03::run(&ctx, &mut ev),
        "C04" => c04::run(&ctx, &mut ev),
        "C05" => c05::run(&ctx, &mut ev),
        "C06" => c06::run(&ctx, &mut ev),
        "C07" => c07::run(&ctx, &mut ev),
        "C08" => c08::run(&ctx, &mut ev),
        "C09" => c09::run(&ctx, &mut ev),
        "C10" => c10::run(&ctx, &mut ev),
        "C11" => c11::run(&ctx, &mut ev),
        "C12" => c12::run(&ctx, &mut ev),
        "C13" => c13::run(&ctx, &mut ev),
        "C14" => c14::run(&ctx, &mut ev),
        "C15" => c15::run(&ctx, &mut ev),
        "C16" => c16::run(&ctx, &mut ev),
        "C17" => c17::run(&ctx, &mut ev),
        "C18" => c18::run(&ctx, &mut ev),
        "C19" => c19::run(&ctx, &mut ev),
        "C20" => c20::run(&ctx, &mut ev),
        _ => { eprintln!("unknown property {}", prop); std::process::exit(3); }
    }
    let json = ev.to_json();
    match out {
        Some(path) if path != "-" => {
            std::fs::write(&path, &json).expect("write result");
            if ev.hashes.len() > 2000 { std::fs::write(format!("{}.hashes", path), ev.hashes_bytes()).expect("write hashes"); }
        }
        _ => println!("RESULT {}", json),
    }
    for v in ev.viols.values() { println!("FINDING monitor={} key={} count={} case={} :: {}", v.monitor, v.key, v.count, v.case_no, v.detail); }
    eprintln!("erv {} shard {}/{} build {}: {} evaluations, {} api calls, {} finding classes, {:.1}s", prop, ctx.shard, ctx.nshards, ctx.build, ev.evaluations, ev.api_calls, ev.viols.len(), 0.0);
}
