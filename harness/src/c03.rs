// C03 Encoding conforms to the Encoding Standard for every scalar-value sequence.
// Oracle: the executable WHATWG model encoder (bytes + ordered unmappable reports; NCR text when replacing).
use crate::alpha::*;
use crate::drive::*;
use crate::ev::*;
use crate::hist::*;
use crate::model::{EItem, M};
use crate::util::*;
use encoding_rs::*;

pub fn model_items(enc: &'static Encoding, atoms: &[u32]) -> Vec<EItem> { M.encode(enc.output_encoding().name(), &atoms_scalars(atoms)) }
pub fn model_bytes_ncr(items: &[EItem]) -> (Vec<u8>, bool) {
    let mut b = vec![]; let mut had = false;
    for it in items { match it { EItem::B(x) => b.extend_from_slice(x), EItem::U(c) => { had = true; b.extend_from_slice(format!("&#{};", c).as_bytes()); } } }
    (b, had)
}

pub struct C03 { pub drv: Driver }
impl C03 {
    pub fn check(&mut self, ev: &mut Ev, enc: &'static Encoding, atoms: &[u32], enumerated: bool, vec_too: bool) {
        let tr = ev.case();
        let model = model_items(enc, atoms);
        let (mbytes, mhad) = model_bytes_ncr(&model);
        let lone = atoms.iter().any(|a| is_lone(*a));
        let nontrivial = atoms.iter().any(|a| *a >= 0x80) || model.iter().any(|i| matches!(i, EItem::U(_)));
        if nontrivial { if enumerated { ev.nontrivial_enum(); } else { ev.nontrivial_hash(H::new().s(enc.name()).u32s(atoms).get()); } }
        for src16 in [false, true] {
            if lone && !src16 { continue; }
            for repl in [false, true] {
                let mut case = EncCase::whole(enc, src16, repl, atoms);
                for vec_sink in [false, true] {
                    if vec_sink && (src16 || !vec_too) { continue; }
                    case.vec_sink = vec_sink;
                    let out = self.drv.run_enc(&case, ev);
                    if tr { println!("TRACE {} | calls: {} | items: [{}] bytes={} | model: [{}]", case.describe(), fmt_calls(&out.calls), fmt_eitems(&out.items), hex(&out.bytes), fmt_eitems(&model)); }
                    ev.count(if repl { "model-diff.ncr-bytes" } else { "model-diff.bytes+unmappables" });
                    let key = |k: &str| format!("{}:{}:{}", crate::c01::ofam(enc), if src16 { "utf16" } else { "utf8" }, k);
                    if let Some(f) = out.fail_of(&[FailKind::Panic, FailKind::Stuck]) { ev.violation("model-diff", &key(&format!("{:?}", f.0)), format!("text could not be encoded: {:?} {} | {}", f.0, f.1, case.describe())); continue; }
                    if repl {
                        if out.bytes != mbytes { ev.violation("model-diff", &key("ncr-bytes"), format!("encoder output (with replacement) differs from the Standard: got {} expected {} | {}", hex(&out.bytes), hex(&mbytes), case.describe())); }
                        else if out.had_any != mhad { ev.violation("model-diff", &key("had_unmappables"), format!("had_unmappables={} but the model has unmappables={} | {}", out.had_any, mhad, case.describe())); }
                    } else if out.items != model {
                        let kind = if out.items.iter().filter(|i| matches!(i, EItem::U(_))).count() != model.iter().filter(|i| matches!(i, EItem::U(_))).count() { "unmappable-set" } else { "bytes" };
                        ev.violation("model-diff", &key(kind), format!("got [{}] expected [{}] | {}", fmt_eitems(&out.items), fmt_eitems(&model), case.describe()));
                    }
                    for c in out.calls.iter() { if let Res::Unmappable(_) = c.res { ev.state(H::new().s(crate::c01::ofam(enc)).u(1).get(), || format!("{} Unmappable seen", crate::c01::ofam(enc))); } }
                }
            }
        }
        ev.sample(|| format!("{} text=[{}] model=[{}]", enc.name(), hex32(atoms), fmt_eitems(&model)));
    }
}

pub fn run(ctx: &Ctx, ev: &mut Ev) {
    let mut c = C03 { drv: Driver::new() };
    let th = ctx.thorough();
    let tiny = !ctx.native() && ctx.mode != Mode::Asan;
    // (a) every scalar value alone through every encoding's encoder
    if ctx.want("scalars") && !tiny {
        for &enc in ALL.iter() {
            // the slow legacy encoders scan tables linearly for unmappables; all are run in full in thorough
            let oe = enc.output_encoding();
            let fam_rep = encoder_families().contains(&enc);
            for block in 0..0x1100u32 {
                if !ev.mine() { continue; }
                let lo = block << 8;
                for cp in lo..lo + 0x100 {
                    if (0xD800..0xE000).contains(&cp) { continue; }
                    if !th {
                        let astral_window = (0x2008A..=0x2F8A6).contains(&cp) && oe == BIG5;
                        if cp > 0xFFFF && !astral_window && cp % 16 != (block % 16) { continue; }
                        if !fam_rep && cp > 0x2FF && cp % 8 != (block % 8) && !(0x2000..0x2700).contains(&cp) { continue; }
                    }
                    c.check(ev, enc, &[cp], true, cp % 64 == 0);
                }
            }
        }
        if th { ev.exhaustive("every scalar value alone x 40 encodings x UTF-8/UTF-16 source x with/without replacement"); }
    }
    // (b) lone / reversed / paired surrogates in UTF-16
    if ctx.want("surrogates") && !tiny {
        for &enc in ALL.iter() {
            if !ev.mine() { continue; }
            for &l in LONE.iter() { c.check(ev, enc, &[l], true, false); c.check(ev, enc, &[0x41, l], true, false); c.check(ev, enc, &[l, 0x41], true, false); c.check(ev, enc, &[l, 0x3042], true, false); c.check(ev, enc, &[0xE9, l, l], true, false); }
            c.check(ev, enc, &[0xDC00, 0xD800], true, false);
            c.check(ev, enc, &[0xDFFF, 0xDBFF, 0x41], true, false);
            c.check(ev, enc, &[0xD800, 0x1F4A9], true, false);
            c.check(ev, enc, &[0x1F4A9, 0xDC00], true, false);
            for cp in [0x10000u32, 0x1F4A9, 0x2008A, 0x10FFFF, 0x20000] { c.check(ev, enc, &[cp, cp], true, false); }
        }
    }
    // (c) all ordered pairs (and triples) over the per-encoder class-representative alphabet: specials + a mappable
    // and an unmappable scalar of every script arm the encoder distinguishes (state transitions, escapes, NCR after escape)
    if ctx.want("pairs") && !tiny {
        for &enc in ALL.iter() {
            let full = encoder_families().contains(&enc);
            if !full && !th && enc.output_encoding() == UTF_8 { continue; }
            let alpha = encoder_alpha(enc);
            let small = encoder_alpha_small(enc, &SCALARS_SMALL);
            for a in alpha.iter() {
                if !ev.mine() { continue; }
                for b in alpha.iter() {
                    if !full && !th && (a + b) % 3 != 0 { continue; }
                    c.check(ev, enc, &[*a, *b], true, false);
                    if full { for d in small.iter() { if !th && (a + b + d) % 2 != 0 { continue; } c.check(ev, enc, &[*a, *b, *d], true, false); } }
                }
            }
        }
    }
    // (c2) 16-bit aliases: an astral scalar next to the BMP scalar with the same low 16 bits, both orders (encoders that
    // look characters up by their low 16 bits - truncation, shared caches - confuse exactly these)
    if ctx.want("alias") && !tiny {
        for &enc in [BIG5, EUC_KR, SHIFT_JIS, EUC_JP, GB18030, GBK, ISO_2022_JP, WINDOWS_1252].iter() {
            for block in 0x100..0x300u32 {
                if !ev.mine() { continue; }
                for cp in (block << 8)..(block << 8) + 0x100 {
                    let low = cp & 0xFFFF;
                    if (0xD800..0xE000).contains(&low) { continue; }
                    let plane2_big5 = enc == BIG5 && cp >= 0x20000;
                    if !th && !plane2_big5 && cp % 8 != block % 8 { continue; }
                    if low >= 0x80 { c.check(ev, enc, &[cp, low], true, false); c.check(ev, enc, &[low, cp], true, false); }
                    if th && low >= 0x80 { c.check(ev, enc, &[cp, cp ^ 0x30000], true, false); }
                }
            }
        }
    }
    // (f) surrogate neighbourhood: every sequence of <= 3 (thorough 4) atoms over ASCII, a non-ASCII character, an astral
    // character, the four corner surrogates and BOTH neighbours of the surrogate range (U+D7FF, U+E000), UTF-16 source
    if ctx.want("surr") && !tiny {
        let atoms: [u32; 9] = [0x61, 0xE9, 0xD7FF, 0xD800, 0xDBFF, 0xDC00, 0xDFFF, 0xE000, 0x1F4A9];
        for seq in strings_over(&atoms, if th { 4 } else { 3 }).iter() {
            if seq.is_empty() { continue; }
            // a high surrogate directly followed by a low one would be a pair, which the scalar atoms cannot denote
            if seq.windows(2).any(|w| (0xD800..0xDC00).contains(&w[0]) && (0xDC00..0xE000).contains(&w[1])) { continue; }
            for &enc in encoder_families().iter() { if !ev.mine() { continue; } c.check(ev, enc, seq, true, false); }
        }
    }
    // (g) the one stateful encoder in each of its states: every scalar value after a JIS X 0208 character and after a
    // JIS X 0201 Roman character (the state-dependent arms skip the pre-checks a fresh encoder applies)
    if ctx.want("states2022") && !tiny {
        for block in 0..0x1100u32 {
            if !ev.mine() { continue; }
            if !th && block >= 0x300 && block % 16 != (ctx.seed as u32) % 16 { continue; }   // quick: all of the BMP + planes 1-2, every 16th block above
            for cp in (block << 8)..(block << 8) + 0x100 {
                if char::from_u32(cp).is_none() { continue; }
                c.check(ev, ISO_2022_JP, &[0x3042, cp], true, false);
                c.check(ev, ISO_2022_JP, &[0xA5, cp], true, false);
                if cp & 0xF == 0xE || th { c.check(ev, ISO_2022_JP, &[0x4E00, cp, 0x3042], true, false); }
            }
        }
    }
    // (e) huge texts: lengths on both sides of 2^16 (thorough: 2^17, 2^20): mappable text of this encoder with unmappable
    // characters next to the 2^16 boundary and at both ends
    if ctx.want("huge") && !tiny {
        let sizes: Vec<usize> = if th { vec![65_535, 65_536, 65_537, 70_001, 131_073, (1 << 20) + 1] } else { vec![65_535, 65_536, 65_537, 70_001] };
        for &enc in encoder_families().iter() { for &n in sizes.iter() {
            if !ev.mine() { continue; }
            let alpha = encoder_alpha(enc);
            let mut base: Vec<u32> = vec![0x61, 0x20];
            for a in alpha.iter() { if *a >= 0x80 && !is_lone(*a) && base.len() < 6 && !model_items(enc, &[*a]).iter().any(|i| matches!(i, EItem::U(_))) { base.push(*a); } }
            let mut t: Vec<u32> = (0..n).map(|i| base[i % base.len()]).collect();
            c.check(ev, enc, &t, true, true);
            for p in [0usize, 65_534, 65_535, 65_536, n - 1] { if p < n { t[p] = if p % 2 == 0 { 0x1F4A9 } else { 0x2603 }; } }
            c.check(ev, enc, &t, true, true);
        } }
    }
    // (d) seeded random texts (long ASCII runs at stride boundaries + alphabet characters)
    if ctx.want("random") {
        let mut r = ctx.rng(3);
        let n = ctx.budget(60_000, 2_000_000);
        for i in 0..n {
            let enc = ALL[r.below(40)];
            let lone = r.chance(2); let t = random_text(&mut r, if i % 50 == 0 { 20 } else { 5 }, lone);
            let t = if t.len() > 1500 { &t[..1500] } else { &t[..] };
            if t.windows(2).any(|w| (0xD800..0xDC00).contains(&w[0]) && (0xDC00..0xE000).contains(&w[1])) { continue; }
            c.check(ev, enc, t, false, i % 4 == 0);
        }
    }
}
