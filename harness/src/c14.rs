// C14 Validators return the exact length of the longest valid prefix.
// Oracle: std::str::from_utf8 / naive scans. Every UTF-8 case runs with the scalar-forcing hook off
// (simdutf8 for >= 64 bytes) and on (built-in scalar code).
use crate::drive::Driver;
use crate::ev::*;
use crate::util::*;
use encoding_rs::mem::*;
use encoding_rs::Encoding;

fn ref_utf8(b: &[u8]) -> usize { match std::str::from_utf8(b) { Ok(_) => b.len(), Err(e) => e.valid_up_to() } }
fn ref_utf16(u: &[u16]) -> usize { let mut i = 0; while i < u.len() { let x = u[i]; if (0xD800..0xDC00).contains(&x) { if i + 1 < u.len() && (0xDC00..0xE000).contains(&u[i + 1]) { i += 2; continue; } return i; } else if (0xDC00..0xE000).contains(&x) { return i; } i += 1; } u.len() }
fn ref_latin1_up_to(b: &[u8]) -> usize { let v = ref_utf8(b); let s = std::str::from_utf8(&b[..v]).unwrap(); s.char_indices().find(|(_, c)| *c as u32 > 0xFF).map(|(i, _)| i).unwrap_or(v) }

/// A validator / classifier that panics does not return an answer at all: reported like a wrong answer.
pub fn check_bytes(drv: &mut Driver, ev: &mut Ev, data: &[u8], align: usize, enumerated: bool, miri: bool) {
    let r = std::panic::catch_unwind(std::panic::AssertUnwindSafe(|| check_bytes_inner(drv, ev, data, align, enumerated, miri)));
    if let Err(e) = r { ev.violation("std-diff", "panic(bytes)", format!("a function panicked: {} | {} bytes at alignment {}, input {}", panic_message(&e), data.len(), align, hexs(data))); }
}
fn check_bytes_inner(drv: &mut Driver, ev: &mut Ev, data: &[u8], align: usize, enumerated: bool, miri: bool) {
    let tr = ev.case();
    let b = drv.src8.carve_from(data, align);
    let nontrivial = data.iter().any(|x| *x >= 0x80);
    if nontrivial { if enumerated { ev.nontrivial_enum(); } else { ev.nontrivial_hash(H::new().b(data).u(align as u64).get()); } }
    let e8 = ref_utf8(b);
    let desc = |api: &str, got: usize, exp: usize| format!("{}({} bytes at alignment {}) = {}, reference {} | input {}", api, data.len(), align, got, exp, hexs(data));
    for forced in [false, true] {
        if miri && !forced { continue; }
        encoding_rs::verif::force_scalar_utf8_validation(forced || miri || ev.ctx.build.contains("scalar"));
        let g = Encoding::utf8_valid_up_to(b); ev.api_calls += 1; ev.count(if forced { "std-diff.utf8_valid_up_to(scalar-forced)" } else { "std-diff.utf8_valid_up_to" });
        if tr { println!("TRACE utf8_valid_up_to forced={} -> {} reference {} | {}", forced, g, e8, hexs(data)); }
        if g != e8 { ev.violation("std-diff", &format!("utf8_valid_up_to:{}:{}", if forced { "scalar-path" } else if data.len() >= 64 { "simd-path" } else { "short" }, if g > e8 { "accepts-invalid" } else { "stops-short" }), desc("utf8_valid_up_to", g, e8)); }
    }
    encoding_rs::verif::force_scalar_utf8_validation(miri || ev.ctx.build.contains("scalar"));
    let ea = b.iter().position(|x| *x >= 0x80).unwrap_or(b.len());
    let g = Encoding::ascii_valid_up_to(b); ev.api_calls += 4; ev.count("std-diff.other-validators");
    if g != ea { ev.violation("std-diff", "ascii_valid_up_to", desc("ascii_valid_up_to", g, ea)); }
    let ej = b.iter().position(|x| *x >= 0x80 || matches!(*x, 0x0E | 0x0F | 0x1B)).unwrap_or(b.len());
    let g = Encoding::iso_2022_jp_ascii_valid_up_to(b);
    if g != ej { ev.violation("std-diff", "iso_2022_jp_ascii_valid_up_to", desc("iso_2022_jp_ascii_valid_up_to", g, ej)); }
    let el = ref_latin1_up_to(b);
    let g = utf8_latin1_up_to(b);
    if g != el { ev.violation("std-diff", "utf8_latin1_up_to", desc("utf8_latin1_up_to", g, el)); }
    if let Ok(s) = std::str::from_utf8(b) { let g = str_latin1_up_to(s); if g != el { ev.violation("std-diff", "str_latin1_up_to", desc("str_latin1_up_to", g, el)); } }
    ev.state(H::new().u((data.len() >= 64) as u64).u((e8 % 16) as u64).u((e8 == data.len()) as u64).get(), || format!("len>=64:{} first-invalid%16={} valid={}", data.len() >= 64, e8 % 16, e8 == data.len()));
    ev.sample(|| format!("bytes {} -> utf8_valid_up_to {}", hexs(data), e8));
}
pub fn check_units(drv: &mut Driver, ev: &mut Ev, data: &[u16], align: usize, enumerated: bool) {
    let r = std::panic::catch_unwind(std::panic::AssertUnwindSafe(|| check_units_inner(drv, ev, data, align, enumerated)));
    if let Err(e) = r { ev.violation("std-diff", "panic(units)", format!("a function panicked: {} | {} units at alignment {}, input [{}]", panic_message(&e), data.len(), align, hex16(&data[..data.len().min(80)]))); }
}
fn check_units_inner(drv: &mut Driver, ev: &mut Ev, data: &[u16], align: usize, enumerated: bool) {
    let tr = ev.case();
    let u = drv.src16.carve_from(data, align);
    if data.iter().any(|x| (0xD800..0xE000).contains(x)) { if enumerated { ev.nontrivial_enum(); } else { ev.nontrivial_hash(H::new().u16s(data).u(align as u64).get()); } }
    let e = ref_utf16(u); let g = utf16_valid_up_to(u); ev.api_calls += 1; ev.count("std-diff.utf16_valid_up_to");
    if tr { println!("TRACE utf16_valid_up_to -> {} reference {} | [{}]", g, e, hex16(data)); }
    if g != e { ev.violation("std-diff", &format!("utf16_valid_up_to:{}", if g > e { "accepts-invalid" } else { "stops-short" }), format!("utf16_valid_up_to({} units at alignment {}) = {}, reference {} | [{}]", data.len(), align, g, e, hex16(&data[..data.len().min(80)]))); }
}

/// defect classes for UTF-8
pub const DEFECTS: [&[u8]; 34] = [b"\x80", b"\xBF", b"\xC0\x80", b"\xC1\xBF", b"\xC2", b"\xC2\x7F", b"\xC2\xC0", b"\xDF", b"\xE0\x80\x80", b"\xE0\x9F\xBF", b"\xE0\xA0", b"\xE0\xA0\x7F", b"\xE1\x80", b"\xE1\x80\xC0", b"\xED\xA0\x80", b"\xED\xBF\xBF", b"\xEF\xBF", b"\xEF", b"\xF0\x80\x80\x80", b"\xF0\x8F\xBF\xBF", b"\xF0\x90\x80", b"\xF0\x90", b"\xF0", b"\xF1\x80\x80\x7F", b"\xF4\x90\x80\x80", b"\xF4\x8F\xBF", b"\xF5\x80\x80\x80", b"\xF8\x88\x80\x80\x80", b"\xFE", b"\xFF", b"\xC4\x80", b"\xC3\xBF", b"\xE4\xB8\x80", b"\xF0\x9F\x92\xA9"];
pub const FILLERS: [&str; 4] = ["a", "\u{E9}", "\u{4E00}", "\u{1F4A9}"];

pub fn run(ctx: &Ctx, ev: &mut Ev) {
    let mut drv = Driver::new();
    if ctx.mode == Mode::Miri {
        // dedicated small workload for the UB interpreter (scalar UTF-8 path forced: cpuid is not interpretable)
        let mut r = ctx.rng(144);
        for _ in 0..(if ctx.thorough() { 330 } else { 24 }) {
            let len = *r.pick(&[0usize, 1, 3, 4, 5, 7, 15, 16, 17, 31, 33, 63, 64, 65, 70]);
            let filler = FILLERS[r.below(4)].as_bytes();
            let mut base: Vec<u8> = vec![]; while base.len() + filler.len() <= len { base.extend_from_slice(filler); } while base.len() < len { base.push(b'z'); }
            if r.chance(5) { check_bytes(&mut drv, ev, &base, r.below(16), false, true); continue; }
            let d = DEFECTS[r.below(DEFECTS.len())];
            let mut p = r.below(base.len() + 1); while p < base.len() && (base[p] & 0xC0) == 0x80 { p += 1; }
            let mut v = base[..p].to_vec(); v.extend_from_slice(d); if r.chance(2) { let mut q = (p + d.len()).min(base.len()); while q < base.len() && (base[q] & 0xC0) == 0x80 { q += 1; } v.extend_from_slice(&base[q..]); }
            check_bytes(&mut drv, ev, &v, r.below(16), false, true);
        }
        for _ in 0..(if ctx.thorough() { 120 } else { 10 }) { let u = crate::memfn::gen_src(&mut r, crate::memfn::SrcKind::Units, 2); check_units(&mut drv, ev, &u.units[..u.units.len().min(50)], r.below(8) * 2, false); }
        return;
    }
    let th = ctx.thorough();
    let miri = ctx.mode == Mode::Miri;
    let tiny = miri || ctx.mode == Mode::Vg;
    // (a) one injected defect at every position of buffers of every length, every filler, alignments
    if ctx.want("sweep") {
        let maxlen = if tiny { 70 } else if th { 160 } else { 136 };
        for len in 0..=maxlen {
            if !ev.mine() { continue; }
            if tiny && !(len < 8 || (60..=68).contains(&len) || len % 16 == 0) { continue; }
            for (fi, filler) in FILLERS.iter().enumerate() {
                let fb = filler.as_bytes();
                let mut base: Vec<u8> = vec![]; while base.len() + fb.len() <= len { base.extend_from_slice(fb); } while base.len() < len { base.push(b'z'); }
                check_bytes(&mut drv, ev, &base, (len + fi) % 16, true, miri);
                for (di, d) in DEFECTS.iter().enumerate() {
                    let positions: Vec<usize> = if tiny { vec![0, len / 2, len.saturating_sub(d.len()), len.saturating_sub(1)] } else if th || len <= 72 { (0..=len).collect() } else { (0..=len).filter(|p| (p + di) % 2 == 0 || *p + 5 > len).collect() };
                    for pos in positions {
                        if pos > len { continue; }
                        // splice the defect at a character boundary at or after pos
                        let mut p = pos.min(base.len()); while p < base.len() && (base[p] & 0xC0) == 0x80 { p += 1; }
                        let mut v = base[..p].to_vec(); v.extend_from_slice(d); if p + d.len() <= base.len() { let mut q = p + d.len(); while q < base.len() && (base[q] & 0xC0) == 0x80 { q += 1; } v.extend_from_slice(&base[q..]); }
                        check_bytes(&mut drv, ev, &v, (pos + di) % 16, true, miri);
                        // truncated at the end of the buffer
                        if p + d.len() > base.len() && d.len() > 1 { let mut t = base[..p].to_vec(); t.extend_from_slice(&d[..d.len() - 1]); check_bytes(&mut drv, ev, &t, (pos + di + 3) % 16, true, miri); }
                    }
                }
            }
            // UTF-16: surrogate arrangements at every position
            for pos in 0..len.max(1) {
                if tiny && pos % 7 != 0 { continue; }
                for (k, pat) in [&[0xD800u16][..], &[0xDC00], &[0xDBFF, 0xDFFF], &[0xDC00, 0xD800], &[0xD800, 0xD800, 0xDC00], &[0xD83D, 0x0041], &[0xDFFF, 0xDFFF],
                    // units after a valid pair take a different loop: pair + lone low / lone high / pair / space + lone
                    &[0xD83D, 0xDCA9, 0xDC00], &[0xD83D, 0xDCA9, 0xD800], &[0xD800, 0xDC00, 0xDBFF, 0xDFFF], &[0xD83D, 0xDCA9, 0x0020, 0xDFFF], &[0xD83D, 0xDCA9, 0x0020, 0x0020, 0xD800], &[0xDBFF, 0xDFFF, 0xDFFF, 0x0041]].iter().enumerate() {
                    let mut u: Vec<u16> = (0..len).map(|i| [0x61u16, 0xE9, 0x4E00][(len + k) % 3] + (i % 7) as u16).collect();
                    for (j, x) in pat.iter().enumerate() { if pos + j < len { u[pos + j] = *x; } }
                    check_units(&mut drv, ev, &u, ((pos + k) * 2) % 16, true);
                }
            }
        }
    }
    // (a2) mixed-length valid text: every sequence of <= 6 characters over one character of each UTF-8 length, after ASCII
    // pads that shift it against the `read + 4 <= len` hand-over, alone and with one defect at every character boundary
    if ctx.want("mixed") && !tiny {
        let chars: [&[u8]; 4] = [b"a", "\u{E9}".as_bytes(), "\u{20AC}".as_bytes(), "\u{1F600}".as_bytes()];
        let idx = [0usize, 1, 2, 3];
        for seq in strings_over(&idx, if th { 7 } else { 6 }).iter() {
            if !ev.mine() { continue; }
            let h = seq.iter().fold(7usize, |a, b| a * 5 + b);
            for pad in [0usize, 1, 2, 3, 13, 60, 61] {
                if pad >= 13 && !th && h % 4 != pad % 4 { continue; }
                let mut v: Vec<u8> = (0..pad).map(|i| b'a' + (i % 26) as u8).collect();
                let mut bounds = vec![v.len()];
                for t in seq { v.extend_from_slice(chars[*t]); bounds.push(v.len()); }
                check_bytes(&mut drv, ev, &v, (h + pad) % 16, true, false);
                // one defect at a character boundary (quick: one defect class per sequence, rotating)
                let dsel: Vec<usize> = if th { (0..DEFECTS.len()).step_by(3).map(|k| (k + h) % DEFECTS.len()).collect() } else { vec![h % DEFECTS.len()] };
                if pad <= 3 { for di in dsel { for b in bounds.iter() { let mut w = v[..*b].to_vec(); w.extend_from_slice(DEFECTS[di]); w.extend_from_slice(&v[*b..]); check_bytes(&mut drv, ev, &w, (h + di) % 16, true, false); } } }
            }
        }
    }
    // (a3) mixed contexts: every sequence of <= 4 tokens over one token per arm of the validators / Latin1 scanners - ASCII,
    // space, ESC / SO, both sides of U+00FF, characters of every UTF-8 length at their range limits, every class of defect -
    // bare, after a 13-byte pad (stride + tail) and, for <= 3 tokens, after a 61-byte pad (SIMD-validator switch at 64)
    if ctx.want("tokens") && !tiny {
        let toks: Vec<&[u8]> = vec![b"a", b" ", b"\x1B", b"\x0E", "\u{E9}".as_bytes(), "\u{FF}".as_bytes(), "\u{100}".as_bytes(), "\u{7FF}".as_bytes(), "\u{800}".as_bytes(), "\u{4E00}".as_bytes(), "\u{FFFF}".as_bytes(), "\u{10000}".as_bytes(), "\u{10FFFF}".as_bytes(),
            b"\x80", b"\xBF", b"\xC0\x80", b"\xC2", b"\xE0\x80\x80", b"\xE0\xA0", b"\xED\xA0\x80", b"\xEF\xBF", b"\xF0\x80\x80\x80", b"\xF0\x90\x80", b"\xF4\x90\x80\x80", b"\xF5", b"\xFF"];
        let idx: Vec<usize> = (0..toks.len()).collect();
        for seq in strings_over(&idx, if th { 5 } else { 4 }).iter() {
            if !ev.mine() { continue; }
            if seq.len() == 5 && (seq[0] * 7 + seq[1] * 5 + seq[2] * 3 + seq[3] + seq[4]) % 4 != (ctx.seed as usize) % 4 { continue; }
            let mut v: Vec<u8> = vec![]; for t in seq { v.extend_from_slice(toks[*t]); }
            let h = seq.iter().fold(7usize, |a, b| a * 31 + b);
            check_bytes(&mut drv, ev, &v, h % 16, true, false);
            if seq.len() <= 3 || h % 4 == 0 { let mut w = vec![b'a'; 13]; w.extend_from_slice(&v); check_bytes(&mut drv, ev, &w, (h / 16) % 16, true, false); }
            if seq.len() <= 3 { let mut w = vec![b'a'; 61]; w.extend_from_slice(&v); check_bytes(&mut drv, ev, &w, (h / 7) % 16, true, false); }
        }
        let units: [u16; 9] = [0x61, 0xFF, 0x100, 0x4E00, 0xD800, 0xDBFF, 0xDC00, 0xDFFF, 0xFFFF];
        for seq in strings_over(&units, if th { 6 } else { 5 }).iter() {
            if !ev.mine() { continue; }
            let h = seq.iter().fold(7usize, |a, b| a * 31 + *b as usize);
            check_units(&mut drv, ev, seq, (h % 8) * 2, true);
            if seq.len() <= 4 || h % 4 == 0 { let mut w = vec![0x61u16; 13]; w.extend_from_slice(seq); check_units(&mut drv, ev, &w, (h / 8 % 8) * 2, true); }
        }
    }
    // (a4) huge buffers: lengths on both sides of 2^16 (thorough: 2^17, 2^20), valid mixed text, then one defect next to the
    // 2^16 boundary or at the very end
    if ctx.want("huge") && !tiny {
        let sizes: Vec<usize> = if th { vec![65_535, 65_536, 65_537, 70_001, 131_073, (1 << 20) + 1] } else { vec![65_535, 65_536, 65_537, 70_001] };
        for (k, &n) in sizes.iter().enumerate() { for (fi, filler) in ["a", "ab\u{E9}", "a\u{E9}\u{20AC}\u{1F600}", "\u{FF}a"].iter().enumerate() {
            if !ev.mine() { continue; }
            let mut v: Vec<u8> = Vec::with_capacity(n + 8); while v.len() + filler.len() <= n { v.extend_from_slice(filler.as_bytes()); } while v.len() < n { v.push(b'z'); }
            check_bytes(&mut drv, ev, &v, (k + fi) % 16, true, false);
            for p in [65_533usize, 65_535, 65_536, n - 1] { if p < n { let mut w = v.clone(); w[p] = 0xFF; check_bytes(&mut drv, ev, &w, (p + fi) % 16, true, false); } }
            let mut u: Vec<u16> = (0..n).map(|i| if fi > 1 && i % 7 == 3 { 0xD83D } else if fi > 1 && i % 7 == 4 { 0xDCA9 } else { 0x61 + (i % 26) as u16 }).collect();
            check_units(&mut drv, ev, &u, (k % 8) * 2, true);
            for p in [65_535usize, 65_536, n - 1] { if p < n { let old = u[p]; u[p] = 0xDC00; check_units(&mut drv, ev, &u, (p % 8) * 2, true); u[p] = old; } }
        } }
    }
    // (a5) every (lead byte, second byte) cell: each pair alone and completed by continuation bytes, bare, after a 13-byte pad
    // and after a 61-byte pad (the validators are table driven; a wrong cell shows only for that pair)
    if ctx.want("cells") && !tiny {
        for a in 0xC0..=0xFFu32 {
            if !ev.mine() { continue; }
            for b in 0..=0xFFu32 { for (ti, tail) in [&[][..], &[0x80u8][..], &[0xBF], &[0x80, 0x80], &[0xBF, 0xBF], &[0x80, 0x61]].iter().enumerate() { for pad in [0usize, 13, 61] {
                let mut v = vec![b'a'; pad]; v.push(a as u8); v.push(b as u8); v.extend_from_slice(tail); v.push(b'z');
                check_bytes(&mut drv, ev, &v, (a as usize + b as usize + ti) % 16, true, false);
            } } }
        }
    }
    // (b) two defects for selected lengths
    if ctx.want("two") && !tiny {
        let lens: Vec<usize> = (0..=40).chain(60..=70).chain(120..=135).collect();
        for len in lens {
            if !ev.mine() { continue; }
            for (di, d1) in DEFECTS.iter().enumerate() { for (dj, d2) in DEFECTS.iter().enumerate() {
                if !th && (di + dj + len) % 4 != 0 { continue; }
                for (p1, p2) in [(0usize, len / 2), (len / 3, len), (len.saturating_sub(6), len.saturating_sub(2)), (1, 2), (len / 2, len / 2 + 1)] {
                    let mut v: Vec<u8> = (0..len).map(|i| 0x61 + (i % 26) as u8).collect();
                    let p2 = p2.min(v.len()); let p1 = p1.min(p2);
                    let tail = v.split_off(p2); let mid = v.split_off(p1);
                    v.extend_from_slice(d1); v.extend_from_slice(&mid); v.extend_from_slice(d2); v.extend_from_slice(&tail);
                    check_bytes(&mut drv, ev, &v, (len + di + dj) % 16, true, false);
                }
            } }
        }
    }
    // (c) seeded random valid / corrupted buffers
    if ctx.want("random") {
        let mut r = ctx.rng(14);
        let n = ctx.budget(400_000, 60_000_000);
        for i in 0..n {
            let src = crate::memfn::gen_src(&mut r, crate::memfn::SrcKind::Bytes, if i % 100 == 0 && !tiny { 40 } else { 4 });
            check_bytes(&mut drv, ev, &src.bytes, r.below(16), false, miri);
            if i % 4 == 0 { let u = crate::memfn::gen_src(&mut r, crate::memfn::SrcKind::Units, 4); check_units(&mut drv, ev, &u.units, r.below(8) * 2, false); }
        }
    }
}
