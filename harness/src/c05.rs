// C05 Output is always well-formed; safe APIs never leave an invalid str or String.
// Oracle: std validators over what every call exposed and over the ENTIRE &mut str / String afterwards.
use crate::arena::*;
use crate::drive::*;
use crate::ev::*;
use crate::hist::*;
use crate::memfn::*;
use crate::util::*;
use encoding_rs::*;
use std::panic::{catch_unwind, AssertUnwindSafe};

fn judge(ev: &mut Ev, case: &DecCase, out: &DecOut) {
    ev.count("validity.histories");
    ev.count_n("validity.calls", out.calls.len() as u64);
    for f in out.fails.iter() {
        match f.0 {
            FailKind::Invalid => ev.violation("validity", &format!("{}:{:?}:written-prefix", crate::c01::family(case.enc), case.sink), format!("{} | {} | calls: {}", f.1, case.describe(), fmt_calls(&out.calls))),
            FailKind::StrInvalid => ev.violation("validity", &format!("{}:{:?}:whole-destination", crate::c01::family(case.enc), case.sink), format!("{} | {} | calls: {}", f.1, case.describe(), fmt_calls(&out.calls))),
            _ => {}
        }
    }
}

/// After the stream has finished, reuse the decoder (documented panic) through each of the four safe str/String
/// methods and re-validate the destination. The String destinations carry stale multi-byte text in their spare
/// capacity (text that was pushed and then truncated away), at every phase.
fn reuse_finished(ev: &mut Ev, enc: &'static Encoding, stream: &[u8], l: usize, filler: usize) {
    let finished = || { let mut d = enc.new_decoder_without_bom_handling(); let mut big = vec![0u8; stream.len() * 3 + 16]; let _ = d.decode_to_utf8(stream, &mut big, true); d };
    for method in 0..4 {
        ev.case(); ev.api_calls += 2;
        let mut d = finished();
        let input: &[u8] = b"ab\xE4\xB8\x80";
        let (bytes, what): (Vec<u8>, &str) = if method < 2 {
            let mut buf = vec![0u8; l]; fill_valid_utf8(&mut buf, filler, filler / 4);
            let mut s = String::from_utf8(buf).unwrap();
            let r = catch_unwind(AssertUnwindSafe(|| { if method == 0 { let _ = d.decode_to_str(input, &mut s[..], false); } else { let _ = d.decode_to_str_without_replacement(input, &mut s[..], false); } }));
            ev.count(if r.is_err() { "reuse.panicked-as-documented" } else { "reuse.no-panic" });
            (s.into_bytes(), if method == 0 { "decode_to_str" } else { "decode_to_str_without_replacement" })
        } else {
            let mut buf = vec![0u8; l + 8]; fill_valid_utf8(&mut buf, filler, filler / 4);
            let mut s = String::from_utf8(buf).unwrap();
            let mut keep = (filler * 3) % (l + 1); while !s.is_char_boundary(keep) { keep -= 1; }
            s.truncate(keep); // the rest of the old text stays behind in the spare capacity
            let r = catch_unwind(AssertUnwindSafe(|| { if method == 2 { let _ = d.decode_to_string(input, &mut s, false); } else { let _ = d.decode_to_string_without_replacement(input, &mut s, false); } }));
            ev.count(if r.is_err() { "reuse.panicked-as-documented" } else { "reuse.no-panic" });
            (s.into_bytes(), if method == 2 { "decode_to_string" } else { "decode_to_string_without_replacement" })
        };
        if std::str::from_utf8(&bytes).is_err() { ev.violation("validity", &format!("reuse-after-finish:{}", what), format!("destination invalid after reusing a finished {} decoder through {}: {}", enc.name(), what, hexs(&bytes))); }
    }
}

pub fn run(ctx: &Ctx, ev: &mut Ev) {
    let mut drv = Driver::new();
    if ctx.mode == Mode::Miri { return miri(ctx, ev, &mut drv); }
    let th = ctx.thorough();
    let tiny = ctx.mode == Mode::Miri || ctx.mode == Mode::Vg;
    // (a) systematic tail sweep: every destination length L, every distance k of `written` from the end,
    // every filler at every phase, source alone / followed by a character that does not fit / by an error
    if ctx.want("tails") {
        let lmax = if tiny { 12 } else if th { 80 } else { 48 };
        for &enc in [UTF_8, WINDOWS_1252, SHIFT_JIS, UTF_16LE, GB18030, EUC_KR, UTF_16BE, BIG5, ISO_2022_JP, EUC_JP, X_USER_DEFINED].iter() {
            for l in 4..=lmax {
                if !ev.mine() { continue; }
                for k in 0..=20usize.min(l) {
                    if tiny && k > 4 { continue; }
                    for filler in 0..3usize { for phase in 0..STR_FILLERS[filler].len() { for tail in 0..4 { for repl in [true, false] {
                        let outlen = l - k;
                        let mut src: Vec<u8> = Vec::with_capacity(outlen * 2 + 8);
                        let is16 = enc == UTF_16LE || enc == UTF_16BE;
                        let push_ascii = |v: &mut Vec<u8>, b: u8| { if enc == UTF_16LE { v.push(b); v.push(0); } else if enc == UTF_16BE { v.push(0); v.push(b); } else { v.push(b); } };
                        for i in 0..outlen { push_ascii(&mut src, b'a' + (i % 26) as u8); }
                        match tail {
                            1 => { // a multi-byte character (3 bytes of UTF-8) that may not fit
                                let t: &[u8] = match enc.name() { "UTF-8" => "\u{4E00}".as_bytes(), "UTF-16LE" => &[0x00, 0x4E], "UTF-16BE" => &[0x4E, 0x00], "Shift_JIS" => &[0x88, 0x9F], "gb18030" => &[0xD2, 0xBB], "EUC-KR" => &[0xB0, 0xA1], "Big5" => &[0xA4, 0x40], "ISO-2022-JP" => &[0x1B, 0x24, 0x42, 0x30, 0x21], "EUC-JP" => &[0xB0, 0xA1], "x-user-defined" => &[0x80], _ => &[0x80] };
                                src.extend_from_slice(t);
                            }
                            2 => { if is16 { src.extend_from_slice(&[0x00, 0xDC, 0x00, 0xDC][..2]); } else if enc == ISO_2022_JP { src.push(0x80); } else if enc == X_USER_DEFINED { src.push(0xFF); } else { src.push(0xFF); } } // an error
                            3 => { // an astral character (4 bytes of UTF-8)
                                let t: &[u8] = match enc.name() { "UTF-8" => "\u{1F4A9}".as_bytes(), "UTF-16LE" => &[0x3D, 0xD8, 0xA9, 0xDC], "UTF-16BE" => &[0xD8, 0x3D, 0xDC, 0xA9], "gb18030" => &[0x94, 0x39, 0xDA, 0x33], "Big5" => &[0x87, 0x40], _ => &[0x41] };
                                src.extend_from_slice(t);
                            }
                            _ => {}
                        }
                        let caps = [l];
                        let case = DecCase { enc, bom: Bom::Off, sink: Sink::Str, repl, stream: &src, cuts: &[], last_sep: false, caps: &caps, fill: 0, src_align: (l + k) % 16, dst_align: (l * 3 + phase) % 16, filler: filler + 4 * phase };
                        let tr = ev.case();
                        let out = drv.run_dec(&case, ev);
                        if tr { println!("TRACE {} | calls: {} | fails: {:?}", case.describe(), fmt_calls(&out.calls), out.fails); }
                        judge(ev, &case, &out);
                        ev.nontrivial_enum();
                        ev.state(H::new().s(enc.name()).u(k.min(5) as u64).u(tail as u64).get(), || format!("{} written-to-end-distance={} tail={}", enc.name(), k.min(5), tail));
                        ev.sample(|| format!("{} -> {}", case.describe(), fmt_calls(&out.calls)));
                    } } } }
                }
            }
        }
    }
    // (a2) every (lead byte, second byte) cell of the UTF-8 decoder, completed by continuation bytes, as the very end of a
    // source buffer: end of the stream, and end of a non-final chunk that is followed by one more byte
    if ctx.want("cells") && !tiny {
        let caps = [64usize];
        for a in 0xC0..=0xFFu32 {
            if !ev.mine() { continue; }
            for b in 0..=0xFFu32 { for (ti, tail) in [&[][..], &[0x80u8][..], &[0xBF], &[0x80, 0x80], &[0xBF, 0xBF], &[0x80, 0x61]].iter().enumerate() { for pad in [0usize, 13] {
                let mut v = vec![b'a'; pad]; v.push(a as u8); v.push(b as u8); v.extend_from_slice(tail);
                let end = v.len();
                let mut v2 = v.clone(); v2.push(b'z');
                let cut = [end];
                for sink in [Sink::U16, Sink::Str, Sink::U8] { for repl in [true, false] { for (stream, cuts) in [(&v, &[][..]), (&v2, &cut[..])] {
                    let case = DecCase { enc: UTF_8, bom: Bom::Off, sink, repl, stream, cuts, last_sep: ti % 2 == 1, caps: &caps, fill: 0xFF, src_align: (a as usize + ti) % 16, dst_align: (b as usize) % 16, filler: ti };
                    let tr = ev.case();
                    let out = drv.run_dec(&case, ev);
                    if tr { println!("TRACE {} | calls: {} | fails: {:?}", case.describe(), fmt_calls(&out.calls), out.fails); }
                    judge(ev, &case, &out);
                    ev.nontrivial_enum();
                } } }
            } } }
        }
    }
    // (b) mem::convert_*_to_str* with every destination length, filler and phase
    if ctx.want("memstr") {
        let lmax = if tiny { 10 } else if th { 70 } else { 40 };
        for len in 0..=lmax {
            if !ev.mine() { continue; }
            for pos in 0..len.max(1) { for (k, u) in [0x0061u16, 0x00E9, 0x4E00, 0xD83D, 0xDC00].iter().enumerate() {
                if tiny && (pos + k) % 3 != 0 { continue; }
                let mut units: Vec<u16> = (0..len).map(|i| 0x61 + (i % 26) as u16).collect();
                if len > 0 { units[pos] = *u; if *u == 0xD83D && pos + 1 < len { units[pos + 1] = 0xDCA9; } }
                let src = Src { bytes: vec![], units };
                let bytes: Vec<u8> = (0..len).map(|i| if i == pos { [0x61u8, 0xE9, 0x80, 0xFF, 0xA0][k] } else { 0x61 + (i % 26) as u8 }).collect();
                let srcb = Src { bytes, units: vec![] };
                for filler in 0..3usize { for phase in 0..STR_FILLERS[filler].len() {
                    for (f, s) in [(Utf16ToStrPartial, &src), (Utf16ToStr, &src), (Latin1ToStrPartial, &srcb), (Latin1ToStr, &srcb)] {
                        let suf = f.sufficient(len);
                        let dls: Vec<usize> = if f.partial() { let mut v: Vec<usize> = vec![pos, pos + 1, pos + 2, pos + 3, pos + 4, len, len + 1, len + 2, len + 17, suf]; v.dedup(); v } else { vec![suf, suf + 1, suf + 5] };
                        for dl in dls {
                            ev.case(); ev.api_calls += 1;
                            let out = drv.run_mem(f, s, dl, 0, (pos + k) % 16, (dl + phase) % 16, filler + 4 * phase);
                            ev.count("validity.mem-str-calls");
                            ev.nontrivial_enum();
                            if out.panic.is_some() { ev.count("foreign.panic(C06)"); continue; }
                            if let Err(e) = std::str::from_utf8(&out.dst8) { ev.violation("validity", &format!("mem::{}:whole-destination", f.name()), format!("&mut str of {} bytes invalid at {} after the call (returned {:?}): {} | {} filler={:?} phase={}", dl, e.valid_up_to(), out.ret, hexs(&out.dst8), s.describe(f), STR_FILLERS[filler], phase)); }
                        }
                    }
                } }
            } }
        }
    }
    // (c) decode histories into &mut str / String / slices: every call's written prefix and the whole destination
    if ctx.want("hist") {
        let sp = DecSpace {
            encs: families(), small_alpha: true, maxlen: if tiny { 2 } else { 3 }, utf16_extra: 1, boms: vec![Bom::Off, Bom::Sniff], sinks: vec![Sink::Str, Sink::String, Sink::U8, Sink::U16], repls: vec![true, false],
            cap_offsets: vec![vec![0], vec![1], vec![2], vec![3, 0]], last_seps: vec![false], stride: if tiny { 997 } else if th { 1 } else { 2 }, prefixes: vec![], fills: vec![0xFF], token_streams: if tiny { (0, 0) } else { (2, 2) }
        };
        ev.note(format!("hist: {}", sp.describe()));
        enum_dec(ctx, ev, &sp, |case, _ng, ev| {
            let tr = ev.case();
            let out = drv.run_dec(case, ev);
            if tr { println!("TRACE {} | calls: {} | fails: {:?}", case.describe(), fmt_calls(&out.calls), out.fails); }
            judge(ev, case, &out);
            if case.stream.iter().any(|b| *b >= 0x80) { ev.nontrivial_enum(); }
        });
        let mut r = ctx.rng(5);
        let n = ctx.budget(300_000, 8_000_000);
        for i in 0..n {
            let enc = ALL[r.below(40)];
            let stream = random_stream(&mut r, enc, if i % 40 == 0 { 20 } else { 4 });
            let stream = if stream.len() > 2000 { &stream[..2000] } else { &stream[..] };
            let sink = [Sink::Str, Sink::String, Sink::Str, Sink::U8, Sink::U16][r.below(5)];
            let cuts = random_cuts(&mut r, stream.len());
            let caps = random_caps(&mut r, dec_min_cap(sink), true);
            let case = DecCase { enc, bom: BOMS[r.below(3)], sink, repl: r.chance(2), stream, cuts: &cuts, last_sep: r.chance(2), caps: &caps, fill: 0xFF, src_align: r.below(16), dst_align: r.below(16), filler: r.below(16) };
            let tr = ev.case();
            let out = drv.run_dec(&case, ev);
            if tr { println!("TRACE {} | calls: {} | fails: {:?}", case.describe(), fmt_calls(&out.calls), out.fails); }
            judge(ev, &case, &out);
            if stream.iter().any(|b| *b >= 0x80) { ev.nontrivial_hash(case.hash()); }
        }
    }
    // (d) one-shot APIs and mem Cow results, finished-decoder reuse
    if ctx.want("oneshot") {
        let mut r = ctx.rng(6);
        let n = ctx.budget(100_000, 2_000_000);
        for i in 0..n {
            let enc = ALL[r.below(40)];
            let stream = random_stream(&mut r, enc, 4);
            ev.case(); ev.api_calls += 5;
            let res = catch_unwind(AssertUnwindSafe(|| {
                let mut bad: Option<&'static str> = None;
                let (c, _, _) = enc.decode(&stream); if std::str::from_utf8(c.as_bytes()).is_err() { bad = Some("decode"); }
                let (c, _) = enc.decode_with_bom_removal(&stream); if std::str::from_utf8(c.as_bytes()).is_err() { bad = Some("decode_with_bom_removal"); }
                let (c, _) = enc.decode_without_bom_handling(&stream); if std::str::from_utf8(c.as_bytes()).is_err() { bad = Some("decode_without_bom_handling"); }
                if let Some(c) = enc.decode_without_bom_handling_and_without_replacement(&stream) { if std::str::from_utf8(c.as_bytes()).is_err() { bad = Some("decode_without_bom_handling_and_without_replacement"); } }
                let c = encoding_rs::mem::decode_latin1(&stream); if std::str::from_utf8(c.as_bytes()).is_err() { bad = Some("mem::decode_latin1"); }
                bad
            }));
            ev.count("validity.oneshot-inputs");
            if stream.iter().any(|b| *b >= 0x80) { ev.nontrivial_hash(H::new().s(enc.name()).b(&stream).u(77).get()); }
            match res { Ok(Some(api)) => ev.violation("validity", &format!("{}:{}", crate::c01::family(enc), api), format!("returned Cow<str> is not valid UTF-8 | enc={} input={}", enc.name(), hexs(&stream))), Ok(None) => {}, Err(_) => ev.count("foreign.panic(C06)") }
            if i % 16 == 0 { reuse_finished(ev, enc, &stream, 4 + r.below(40), r.below(12)); }
        }
    }
}

/// Dedicated small workload for the UB interpreter.
fn miri(ctx: &Ctx, ev: &mut Ev, drv: &mut Driver) {
    let mut r = ctx.rng(55);
    let th = ctx.thorough();
    for _ in 0..(if th { 120 } else { 10 }) {
        let enc = *r.pick(&[UTF_8, WINDOWS_1252, SHIFT_JIS, UTF_16LE, GB18030, EUC_KR, BIG5, ISO_2022_JP, EUC_JP]);
        let stream = random_stream(&mut r, enc, 1); let stream = &stream[..stream.len().min(40)];
        let sink = [Sink::Str, Sink::String, Sink::Str][r.below(3)];
        let caps = [4 + r.below(20)];
        let case = DecCase { enc, bom: Bom::Off, sink, repl: r.chance(2), stream, cuts: &[], last_sep: r.chance(2), caps: &caps, fill: 0, src_align: r.below(16), dst_align: r.below(16), filler: r.below(12) };
        ev.case(); let out = drv.run_dec(&case, ev); judge(ev, &case, &out); ev.nontrivial_hash(case.hash());
        ev.sample(|| format!("{} -> {}", case.describe(), fmt_calls(&out.calls)));
    }
    for i in 0..(if th { 180 } else { 16 }) {
        let f = [Utf16ToStrPartial, Utf16ToStr, Latin1ToStrPartial, Latin1ToStr][i % 4];
        let src = gen_src(&mut r, f.src_kind(), 1);
        let src = Src { bytes: src.bytes[..src.bytes.len().min(40)].to_vec(), units: src.units[..src.units.len().min(40)].to_vec() };
        let dl = gen_dst_len(&mut r, f, src.len(f));
        ev.case(); ev.api_calls += 1;
        let out = drv.run_mem(f, &src, dl, 0, r.below(16), r.below(16), r.below(12));
        ev.count("validity.mem-str-calls"); ev.nontrivial_hash(H::new().s(f.name()).b(&src.bytes).u16s(&src.units).u(dl as u64).get());
        if out.panic.is_none() { if let Err(e) = std::str::from_utf8(&out.dst8) { ev.violation("validity", &format!("mem::{}:whole-destination", f.name()), format!("&mut str of {} bytes invalid at {} after the call: {} | {}", dl, e.valid_up_to(), hexs(&out.dst8), src.describe(f))); } }
    }
    for _ in 0..(if th { 6 } else { 2 }) { let enc = ALL[r.below(40)]; let s = random_stream(&mut r, enc, 1); reuse_finished(ev, enc, &s[..s.len().min(20)], 4 + r.below(20), r.below(12)); }
}
