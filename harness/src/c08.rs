// C08 Conversion loops always make progress and terminate.
// Monitor: bounded-progress counters over the documented caller loop at and just above the documented
// minimum capacities - no wall clock. (a) every call that reports OutputFull must have consumed input or
// produced output; (b) total calls <= 4 x (input units) + 16 (+ one per chunk handed in); (c) the loop
// reaches InputEmpty with `last`.
use crate::alpha::*;
use crate::drive::*;
use crate::ev::*;
use crate::hist::*;
use crate::util::*;
use encoding_rs::*;

fn judge(ev: &mut Ev, what: &str, fam: &str, n: usize, nchunks: usize, calls: &[Call], fails: &[(FailKind, String)], finished: bool, describe: &dyn Fn() -> String) {
    ev.count(&format!("progress.{}-histories", what));
    ev.count_n("progress.calls", calls.len() as u64);
    for f in fails.iter() {
        match f.0 {
            FailKind::Stuck => ev.violation("progress", &format!("{}:{}:call-bound", what, fam), format!("{} | {} | first calls: {}", f.1, describe(), fmt_calls(&calls[..calls.len().min(12)]))),
            FailKind::NoProgress => ev.violation("progress", &format!("{}:{}:no-progress-call", what, fam), format!("{} | {} | calls: {}", f.1, describe(), fmt_calls(&calls[..calls.len().min(12)]))),
            _ => {}
        }
    }
    if calls.len() > 4 * n + 16 + nchunks { ev.violation("progress", &format!("{}:{}:call-bound", what, fam), format!("{} calls for {} input units in {} chunks exceeds 4n+16(+chunks) | {}", calls.len(), n, nchunks, describe())); }
    if !finished && fails.iter().all(|f| !matches!(f.0, FailKind::Panic | FailKind::Stuck | FailKind::Contract)) { ev.violation("progress", &format!("{}:{}:never-finished", what, fam), format!("caller loop ended without InputEmpty on the last call | {}", describe())); }
    if fails.iter().any(|f| f.0 == FailKind::Panic) { ev.count("foreign.panic(C06)"); }
    let maxrun = calls.len() as u64;
    ev.state(H::new().s(what).s(fam).u(maxrun.min(12)).get(), || format!("{} {} calls-per-history={}", what, fam, maxrun.min(12)));
}

pub fn run(ctx: &Ctx, ev: &mut Ev) {
    let mut drv = Driver::new();
    let th = ctx.thorough();
    let tiny = !ctx.native();
    if ctx.want("dec") {
        let sp = DecSpace { encs: families(), small_alpha: !th, maxlen: if tiny { 2 } else { 3 }, utf16_extra: 1, boms: vec![Bom::Off, Bom::Sniff, Bom::Remove], sinks: vec![Sink::U8, Sink::U16, Sink::Str, Sink::String], repls: vec![true, false],
            cap_offsets: vec![vec![0], vec![1], vec![0, 1, 2]], last_seps: vec![false, true], stride: if tiny { 211 } else if th { 2 } else { 2 }, prefixes: vec![], fills: vec![0x11], token_streams: if tiny { (0, 0) } else { (3, 2) } };
        ev.note(format!("dec: {}", sp.describe()));
        enum_dec(ctx, ev, &sp, |case, _ng, ev| {
            let tr = ev.case();
            let out = drv.run_dec(case, ev);
            if tr { println!("TRACE {} | calls: {} | fails: {:?}", case.describe(), fmt_calls(&out.calls), out.fails); }
            judge(ev, "decode", crate::c01::family(case.enc), case.stream.len(), case.cuts.len() + 1 + case.last_sep as usize, &out.calls, &out.fails, out.finished, &|| case.describe());
            if out.calls.iter().any(|c| c.res == Res::OutputFull) { ev.nontrivial_enum(); }
            ev.sample(|| format!("{} -> {}", case.describe(), fmt_calls(&out.calls)));
        });
        // BOM look-alike prefixes for all 40 encodings at exactly the minimum
        let sp2 = DecSpace { encs: ALL.iter().copied().collect(), small_alpha: true, maxlen: 1, utf16_extra: 0, boms: vec![Bom::Sniff, Bom::Remove], sinks: vec![Sink::U8, Sink::U16], repls: vec![true, false],
            cap_offsets: vec![vec![0], vec![1]], last_seps: vec![false, true], stride: if tiny { 101 } else { 1 }, prefixes: strings_over(&BOM_ALPHA, 3), fills: vec![0x11], token_streams: (0, 0) };
        ev.note(format!("dec-bom: {}", sp2.describe()));
        enum_dec(ctx, ev, &sp2, |case, _ng, ev| {
            let tr = ev.case();
            let out = drv.run_dec(case, ev);
            if tr { println!("TRACE {} | calls: {} | fails: {:?}", case.describe(), fmt_calls(&out.calls), out.fails); }
            judge(ev, "decode", crate::c01::family(case.enc), case.stream.len(), case.cuts.len() + 1 + case.last_sep as usize, &out.calls, &out.fails, out.finished, &|| case.describe());
            if out.calls.iter().any(|c| c.res == Res::OutputFull) { ev.nontrivial_enum(); }
        });
    }
    if ctx.want("enc") {
        let mut alpha: Vec<u32> = if th { SCALARS.to_vec() } else { SCALARS_SMALL.to_vec() }; alpha.push(0xD800); alpha.push(0x10FFFF);
        let sp = EncSpace { encs: encoder_families(), alpha, maxlen: if tiny { 2 } else { 3 }, src16s: vec![false, true], vec_sinks: vec![false, true], repls: vec![false, true],
            cap_offsets: vec![vec![0], vec![1], vec![0, 2]], last_seps: vec![false, true], stride: if tiny { 101 } else if th { 2 } else { 2 }, fills: vec![0x11], per_encoder: true };
        ev.note(format!("enc: {}", sp.describe()));
        enum_enc(ctx, ev, &sp, |case, _ng, ev| {
            let tr = ev.case();
            let out = drv.run_enc(case, ev);
            if tr { println!("TRACE {} | calls: {} | fails: {:?}", case.describe(), fmt_calls(&out.calls), out.fails); }
            let n: usize = case.atoms.iter().map(|a| if case.src16 { if *a > 0xFFFF { 2 } else { 1 } } else { char::from_u32(*a).map(|c| c.len_utf8()).unwrap_or(3) }).sum();
            judge(ev, "encode", case.enc.output_encoding().name(), n, case.cuts.len() + 1 + case.last_sep as usize, &out.calls, &out.fails, out.finished, &|| case.describe());
            if out.calls.iter().any(|c| c.res == Res::OutputFull) { ev.nontrivial_enum(); }
        });
    }
    // random long streams / texts at the minimum capacities (every call must make progress)
    if ctx.want("random") {
        let mut r = ctx.rng(8);
        let n = ctx.budget(150_000, 5_000_000);
        for _ in 0..n {
            let enc = ALL[r.below(40)];
            if r.chance(2) {
                let stream = random_stream(&mut r, enc, 4); let stream = &stream[..stream.len().min(400)];
                let sink = SINKS[r.below(4)]; let cuts = random_cuts(&mut r, stream.len()); let min = dec_min_cap(sink);
                let caps: Vec<usize> = (0..1 + r.below(3)).map(|_| min + r.below(3)).collect();
                let case = DecCase { enc, bom: BOMS[r.below(3)], sink, repl: r.chance(2), stream, cuts: &cuts, last_sep: r.chance(2), caps: &caps, fill: 0x11, src_align: r.below(16), dst_align: r.below(16), filler: r.below(16) };
                let tr = ev.case(); let out = drv.run_dec(&case, ev);
                if tr { println!("TRACE {} | calls: {} | fails: {:?}", case.describe(), fmt_calls(&out.calls), out.fails); }
                judge(ev, "decode", crate::c01::family(enc), stream.len(), cuts.len() + 1 + case.last_sep as usize, &out.calls, &out.fails, out.finished, &|| case.describe());
                if out.calls.iter().any(|c| c.res == Res::OutputFull) { ev.nontrivial_hash(case.hash()); }
            } else {
                let src16 = r.chance(2); let t = random_text(&mut r, 3, src16); let t = &t[..t.len().min(300)];
                if t.windows(2).any(|w| (0xD800..0xDC00).contains(&w[0]) && (0xDC00..0xE000).contains(&w[1])) { continue; }
                let repl = r.chance(2); let cuts = random_cuts(&mut r, t.len()); let min = enc_min_cap(repl);
                let caps: Vec<usize> = (0..1 + r.below(3)).map(|_| min + r.below(3)).collect();
                let case = EncCase { enc, src16, vec_sink: !src16 && r.chance(3), repl, atoms: t, cuts: &cuts, last_sep: r.chance(2), caps: &caps, fill: 0x11, src_align: r.below(16), dst_align: r.below(16) };
                let tr = ev.case(); let out = drv.run_enc(&case, ev);
                if tr { println!("TRACE {} | calls: {} | fails: {:?}", case.describe(), fmt_calls(&out.calls), out.fails); }
                let n: usize = t.iter().map(|a| if src16 { if *a > 0xFFFF { 2 } else { 1 } } else { char::from_u32(*a).map(|c| c.len_utf8()).unwrap_or(3) }).sum();
                judge(ev, "encode", enc.output_encoding().name(), n, cuts.len() + 1 + case.last_sep as usize, &out.calls, &out.fails, out.finished, &|| case.describe());
                if out.calls.iter().any(|c| c.res == Res::OutputFull) { ev.nontrivial_hash(case.hash()); }
            }
        }
    }
}
