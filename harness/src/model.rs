// Executable model of the WHATWG Encoding Standard (decoders + encoders), transcribed
// from the Standard (DESIGN.md Appendix A). Independent of the crate's structure: no ASCII
// fast paths, no handles, plain tables indexed by pointer. Tables come from /verif/oracle
// (compiled in), never from /repo.
use std::collections::HashMap;
use std::sync::OnceLock;

#[derive(Clone, Debug, PartialEq, Eq)]
pub enum Item { C(u32), E(usize, usize) }
#[derive(Clone, Debug, PartialEq, Eq)]
pub enum EItem { B(Vec<u8>), U(u32) }

pub struct Index { pub tab: Vec<u32> /* 0 = null */ }
impl Index {
    fn parse(txt: &str, size: usize) -> Index {
        let mut tab = vec![0u32; size];
        for line in txt.lines() {
            let mut it = line.split('\t');
            let p: usize = it.next().unwrap().parse().unwrap();
            let cps: Vec<u32> = it.next().unwrap().split(' ').map(|s| u32::from_str_radix(&s[2..], 16).unwrap()).collect();
            if cps.len() == 1 { tab[p] = cps[0]; }
        }
        Index { tab }
    }
    pub fn get(&self, p: usize) -> Option<u32> { match self.tab.get(p) { Some(0) | None => None, Some(c) => Some(*c) } }
    // first pointer for each code point, honouring a pointer filter
    fn first_map(&self, keep: impl Fn(usize) -> bool) -> HashMap<u32, usize> {
        let mut m = HashMap::new();
        for (p, c) in self.tab.iter().enumerate() { if *c != 0 && keep(p) { m.entry(*c).or_insert(p); } }
        m
    }
    fn last_pointer(&self, cp: u32, keep: impl Fn(usize) -> bool) -> Option<usize> {
        let mut r = None; for (p, c) in self.tab.iter().enumerate() { if *c == cp && keep(p) { r = Some(p); } } r
    }
}

macro_rules! lazy_index {
    ($fname:ident, $file:expr, $size:expr) => {
        pub fn $fname() -> &'static Index { static C: OnceLock<Index> = OnceLock::new(); C.get_or_init(|| Index::parse(include_str!(concat!("../../oracle/index-", $file, ".txt")), $size)) }
    };
}
lazy_index!(ix_big5, "big5", 19782);
lazy_index!(ix_jis0208, "jis0208", 11280);
lazy_index!(ix_jis0212, "jis0212", 8836);
lazy_index!(ix_euckr, "euc-kr", 23940);
lazy_index!(ix_gb, "gb18030", 23940);

pub const SINGLE: [&str; 27] = ["IBM866","ISO-8859-2","ISO-8859-3","ISO-8859-4","ISO-8859-5","ISO-8859-6","ISO-8859-7","ISO-8859-8","ISO-8859-10","ISO-8859-13","ISO-8859-14","ISO-8859-15","ISO-8859-16","KOI8-R","KOI8-U","macintosh","windows-874","windows-1250","windows-1251","windows-1252","windows-1253","windows-1254","windows-1255","windows-1256","windows-1257","windows-1258","x-mac-cyrillic"];
const SINGLE_TXT: [&str; 27] = [
    include_str!("../../oracle/index-IBM866.txt"), include_str!("../../oracle/index-ISO-8859-2.txt"), include_str!("../../oracle/index-ISO-8859-3.txt"),
    include_str!("../../oracle/index-ISO-8859-4.txt"), include_str!("../../oracle/index-ISO-8859-5.txt"), include_str!("../../oracle/index-ISO-8859-6.txt"),
    include_str!("../../oracle/index-ISO-8859-7.txt"), include_str!("../../oracle/index-ISO-8859-8.txt"), include_str!("../../oracle/index-ISO-8859-10.txt"),
    include_str!("../../oracle/index-ISO-8859-13.txt"), include_str!("../../oracle/index-ISO-8859-14.txt"), include_str!("../../oracle/index-ISO-8859-15.txt"),
    include_str!("../../oracle/index-ISO-8859-16.txt"), include_str!("../../oracle/index-KOI8-R.txt"), include_str!("../../oracle/index-KOI8-U.txt"),
    include_str!("../../oracle/index-macintosh.txt"), include_str!("../../oracle/index-windows-874.txt"), include_str!("../../oracle/index-windows-1250.txt"),
    include_str!("../../oracle/index-windows-1251.txt"), include_str!("../../oracle/index-windows-1252.txt"), include_str!("../../oracle/index-windows-1253.txt"),
    include_str!("../../oracle/index-windows-1254.txt"), include_str!("../../oracle/index-windows-1255.txt"), include_str!("../../oracle/index-windows-1256.txt"),
    include_str!("../../oracle/index-windows-1257.txt"), include_str!("../../oracle/index-windows-1258.txt"), include_str!("../../oracle/index-x-mac-cyrillic.txt"),
];
pub struct SingleIx { pub ix: Index, pub enc: HashMap<u32, usize> }
pub fn single(name: &str) -> &'static SingleIx {
    static C: OnceLock<Vec<OnceLock<SingleIx>>> = OnceLock::new();
    let v = C.get_or_init(|| (0..27).map(|_| OnceLock::new()).collect());
    let name = if name == "ISO-8859-8-I" { "ISO-8859-8" } else { name };
    let k = SINGLE.iter().position(|n| *n == name).unwrap_or_else(|| panic!("no single-byte index {}", name));
    v[k].get_or_init(|| { let ix = Index::parse(SINGLE_TXT[k], 128); let enc = ix.first_map(|_| true); SingleIx { ix, enc } })
}
fn ranges() -> &'static Vec<(u32, u32)> {
    static C: OnceLock<Vec<(u32, u32)>> = OnceLock::new();
    C.get_or_init(|| {
        let mut ranges = vec![];
        for line in include_str!("../../oracle/gb18030-ranges-cpython.txt").lines() {
            let mut it = line.split('\t'); let p: u32 = it.next().unwrap().parse().unwrap(); let c = it.next().unwrap();
            if c != "null" { ranges.push((p, u32::from_str_radix(&c[2..], 16).unwrap())); } else { panic!("null range at {}", p); }
        }
        ranges
    })
}
/// change points of the gb18030 ranges table (pointer values where the pointer -> code point offset changes)
pub fn gb18030_range_points() -> Vec<u32> { ranges().iter().map(|r| r.0).collect() }
const BIG5_LOW: usize = (0xA1 - 0x81) * 157;
fn big5_enc() -> &'static HashMap<u32, usize> { static C: OnceLock<HashMap<u32, usize>> = OnceLock::new(); C.get_or_init(|| {
    let big5 = ix_big5(); let mut m = big5.first_map(|p| p >= BIG5_LOW);
    for cp in [0x2550u32, 0x255E, 0x2561, 0x256A, 0x5341, 0x5345] { if let Some(p) = big5.last_pointer(cp, |p| p >= BIG5_LOW) { m.insert(cp, p); } }
    m }) }
fn jis0208_enc() -> &'static HashMap<u32, usize> { static C: OnceLock<HashMap<u32, usize>> = OnceLock::new(); C.get_or_init(|| ix_jis0208().first_map(|_| true)) }
fn sjis_enc() -> &'static HashMap<u32, usize> { static C: OnceLock<HashMap<u32, usize>> = OnceLock::new(); C.get_or_init(|| ix_jis0208().first_map(|p| !(8272..=8835).contains(&p))) }
fn euckr_enc() -> &'static HashMap<u32, usize> { static C: OnceLock<HashMap<u32, usize>> = OnceLock::new(); C.get_or_init(|| ix_euckr().first_map(|_| true)) }
fn gb_enc() -> &'static HashMap<u32, usize> { static C: OnceLock<HashMap<u32, usize>> = OnceLock::new(); C.get_or_init(|| ix_gb().first_map(|_| true)) }

pub const GB2022: [(u32, [u8; 2]); 18] = [(0xE78D,[0xA6,0xD9]),(0xE78E,[0xA6,0xDA]),(0xE78F,[0xA6,0xDB]),(0xE790,[0xA6,0xDC]),(0xE791,[0xA6,0xDD]),(0xE792,[0xA6,0xDE]),(0xE793,[0xA6,0xDF]),(0xE794,[0xA6,0xEC]),(0xE795,[0xA6,0xED]),(0xE796,[0xA6,0xF3]),(0xE81E,[0xFE,0x59]),(0xE826,[0xFE,0x61]),(0xE82B,[0xFE,0x66]),(0xE82C,[0xFE,0x67]),(0xE832,[0xFE,0x6D]),(0xE843,[0xFE,0x7E]),(0xE854,[0xFE,0x90]),(0xE864,[0xFE,0xA0])];

/// Zero-sized handle; all data is in lazily initialised statics.
pub struct Model;
pub static M: Model = Model;

impl Model {
    fn ranges_cp(&self, p: u32) -> Option<u32> {
        if (p > 39419 && p < 189000) || p > 1237575 { return None; }
        if p >= 189000 { return Some(p - 189000 + 0x10000); }
        if p == 7457 { return Some(0xE7C7); }
        let k = ranges().partition_point(|(rp, _)| *rp <= p); let (rp, rc) = ranges()[k - 1]; Some(rc + (p - rp))
    }
    fn ranges_pointer(&self, cp: u32) -> u32 {
        if cp >= 0x10000 { return cp - 0x10000 + 189000; }
        if cp == 0xE7C7 { return 7457; }
        let mut best = None; for (rp, rc) in ranges().iter() { if *rc <= cp { match best { Some((_, bc)) if bc >= *rc => {}, _ => best = Some((*rp, *rc)) } } }
        let (rp, rc) = best.unwrap(); rp + (cp - rc)
    }

    // ---------------- decoders ----------------
    pub fn decode(&self, enc: &str, b: &[u8]) -> Vec<Item> {
        match enc {
            "UTF-8" => dec_utf8(b), "UTF-16LE" => dec_utf16(b, false), "UTF-16BE" => dec_utf16(b, true),
            "replacement" => if b.is_empty() { vec![] } else { vec![Item::E(0, 1)] },
            "x-user-defined" => b.iter().map(|x| Item::C(if *x < 0x80 { *x as u32 } else { 0xF780 + *x as u32 - 0x80 })).collect(),
            "Big5" => self.dec_big5(b), "EUC-KR" => self.dec_euckr(b), "Shift_JIS" => self.dec_sjis(b), "EUC-JP" => self.dec_eucjp(b),
            "ISO-2022-JP" => self.dec_2022(b), "gb18030" | "GBK" => self.dec_gb(b),
                        n => self.dec_single(n, b),
        }
    }
    fn dec_single(&self, n: &str, b: &[u8]) -> Vec<Item> {
        let ix = &single(n).ix;
        b.iter().enumerate().map(|(i, x)| if *x < 0x80 { Item::C(*x as u32) } else { match ix.get((*x - 0x80) as usize) { Some(c) => Item::C(c), None => Item::E(i, i + 1) } }).collect()
    }
    // generic lead/trail family: f(lead, byte) -> Some(items) if decodable
    fn two_byte(&self, b: &[u8], is_lead: impl Fn(u8) -> bool, single: impl Fn(u8) -> Option<u32>, pair: impl Fn(u8, u8) -> Option<Vec<u32>>) -> Vec<Item> {
        let mut out = vec![]; let n = b.len(); let mut i = 0; let mut lead: Option<(u8, usize)> = None;
        loop {
            if i == n { if let Some((_, s)) = lead { out.push(Item::E(s, n)); } break; }
            let x = b[i]; i += 1;
            if let Some((l, s)) = lead.take() {
                if let Some(cps) = pair(l, x) { for c in cps { out.push(Item::C(c)); } continue; }
                if x < 0x80 { i -= 1; out.push(Item::E(s, s + 1)); } else { out.push(Item::E(s, s + 2)); }
                continue;
            }
            if let Some(c) = single(x) { out.push(Item::C(c)); } else if is_lead(x) { lead = Some((x, i - 1)); } else { out.push(Item::E(i - 1, i)); }
        }
        out
    }
    fn dec_big5(&self, b: &[u8]) -> Vec<Item> {
        self.two_byte(b, |x| (0x81..=0xFE).contains(&x), |x| if x < 0x80 { Some(x as u32) } else { None }, |l, x| {
            if !((0x40..=0x7E).contains(&x) || (0xA1..=0xFE).contains(&x)) { return None; }
            let offset = if x < 0x7F { 0x40 } else { 0x62 }; let p = (l as usize - 0x81) * 157 + (x as usize - offset);
            match p { 1133 => Some(vec![0xCA, 0x304]), 1135 => Some(vec![0xCA, 0x30C]), 1164 => Some(vec![0xEA, 0x304]), 1166 => Some(vec![0xEA, 0x30C]), _ => ix_big5().get(p).map(|c| vec![c]) }
        })
    }
    fn dec_euckr(&self, b: &[u8]) -> Vec<Item> {
        self.two_byte(b, |x| (0x81..=0xFE).contains(&x), |x| if x < 0x80 { Some(x as u32) } else { None }, |l, x| {
            if !(0x41..=0xFE).contains(&x) { return None; } ix_euckr().get((l as usize - 0x81) * 190 + (x as usize - 0x41)).map(|c| vec![c]) })
    }
    fn dec_sjis(&self, b: &[u8]) -> Vec<Item> {
        self.two_byte(b, |x| (0x81..=0x9F).contains(&x) || (0xE0..=0xFC).contains(&x),
            |x| if x <= 0x80 { Some(x as u32) } else if (0xA1..=0xDF).contains(&x) { Some(0xFF61 - 0xA1 + x as u32) } else { None },
            |l, x| { if !((0x40..=0x7E).contains(&x) || (0x80..=0xFC).contains(&x)) { return None; }
                let offset = if x < 0x7F { 0x40 } else { 0x41 }; let lo = if l < 0xA0 { 0x81 } else { 0xC1 };
                let p = (l as usize - lo) * 188 + x as usize - offset;
                if (8836..=10715).contains(&p) { return Some(vec![0xE000 - 8836 + p as u32]); }
                ix_jis0208().get(p).map(|c| vec![c]) })
    }
    fn dec_eucjp(&self, b: &[u8]) -> Vec<Item> {
        let mut out = vec![]; let n = b.len(); let mut i = 0; let mut lead: u8 = 0; let mut s = 0usize; let mut jis0212 = false;
        loop {
            if i == n { if lead != 0 { out.push(Item::E(s, n)); } break; }
            let x = b[i]; i += 1;
            if lead == 0x8E && (0xA1..=0xDF).contains(&x) { lead = 0; out.push(Item::C(0xFF61 - 0xA1 + x as u32)); continue; }
            if lead == 0x8F && (0xA1..=0xFE).contains(&x) { jis0212 = true; lead = x; continue; }
            if lead != 0 {
                let l = lead; lead = 0; let mut cp = None;
                if (0xA1..=0xFE).contains(&l) && (0xA1..=0xFE).contains(&x) { let p = (l as usize - 0xA1) * 94 + x as usize - 0xA1; cp = if jis0212 { ix_jis0212().get(p) } else { if p < 8836 { ix_jis0208().get(p) } else { None } }; }
                jis0212 = false;
                if let Some(c) = cp { out.push(Item::C(c)); continue; }
                if x < 0x80 { i -= 1; out.push(Item::E(s, i)); } else { out.push(Item::E(s, i)); }
                continue;
            }
            if x < 0x80 { out.push(Item::C(x as u32)); continue; }
            if x == 0x8E || x == 0x8F || (0xA1..=0xFE).contains(&x) { lead = x; s = i - 1; continue; }
            out.push(Item::E(i - 1, i));
        }
        out
    }
    fn dec_gb(&self, b: &[u8]) -> Vec<Item> {
        let mut out = vec![]; let n = b.len(); let mut i = 0; let (mut first, mut second, mut third) = (0u8, 0u8, 0u8); let mut s = 0usize;
        loop {
            if i == n { if first != 0 || second != 0 || third != 0 { out.push(Item::E(s, n)); } break; }
            let x = b[i]; i += 1;
            if third != 0 {
                if !(0x30..=0x39).contains(&x) { i -= 3; first = 0; second = 0; third = 0; out.push(Item::E(s, s + 1)); continue; }
                let p = (first as u32 - 0x81) * 12600 + (second as u32 - 0x30) * 1260 + (third as u32 - 0x81) * 10 + x as u32 - 0x30;
                first = 0; second = 0; third = 0;
                match self.ranges_cp(p) { Some(c) => out.push(Item::C(c)), None => out.push(Item::E(s, s + 4)) }
                continue;
            }
            if second != 0 {
                if (0x81..=0xFE).contains(&x) { third = x; continue; }
                i -= 2; first = 0; second = 0; out.push(Item::E(s, s + 1)); continue;
            }
            if first != 0 {
                if (0x30..=0x39).contains(&x) { second = x; continue; }
                let l = first; first = 0; let mut cp = None;
                if (0x40..=0x7E).contains(&x) || (0x80..=0xFE).contains(&x) { let offset = if x < 0x7F { 0x40 } else { 0x41 }; cp = ix_gb().get((l as usize - 0x81) * 190 + (x as usize - offset)); }
                if let Some(c) = cp { out.push(Item::C(c)); continue; }
                if x < 0x80 { i -= 1; out.push(Item::E(s, s + 1)); } else { out.push(Item::E(s, s + 2)); }
                continue;
            }
            if x < 0x80 { out.push(Item::C(x as u32)); continue; }
            if x == 0x80 { out.push(Item::C(0x20AC)); continue; }
            if (0x81..=0xFE).contains(&x) { first = x; s = i - 1; continue; }
            out.push(Item::E(i - 1, i));
        }
        out
    }
    pub fn dec_2022_final(&self, b: &[u8]) -> (bool, bool) { let mut f = (true, false); self.dec_2022_inner(b, &mut f); f }
    fn dec_2022(&self, b: &[u8]) -> Vec<Item> { let mut f = (true, false); self.dec_2022_inner(b, &mut f) }
    fn dec_2022_inner(&self, b: &[u8], fin: &mut (bool, bool)) -> Vec<Item> {
        #[derive(Clone, Copy, PartialEq)] enum S { Ascii, Roman, Kata, Lead, Trail, EscStart, Esc }
        let mut out = vec![]; let n = b.len(); let mut i = 0; let mut st = S::Ascii; let mut ost = S::Ascii; let mut lead = 0u8; let mut output = false;
        let mut esc_at = 0usize; // index of the ESC of the escape sequence in progress
        let mut prev_esc: Option<usize> = None; // start of the last completed escape sequence (for the 3+3 case)
        let mut lead_at = 0usize;
        loop {
            let eof = i == n; let x = if eof { 0 } else { b[i] }; if !eof { i += 1; }
            match st {
                S::Ascii | S::Roman | S::Kata | S::Lead => {
                    if eof { *fin = (st == S::Ascii, output); break; }
                    if x == 0x1B { st = S::EscStart; esc_at = i - 1; continue; }
                    output = false;
                    match st {
                        S::Ascii => if x <= 0x7F && x != 0x0E && x != 0x0F { out.push(Item::C(x as u32)); } else { out.push(Item::E(i - 1, i)); },
                        S::Roman => if x == 0x5C { out.push(Item::C(0xA5)); } else if x == 0x7E { out.push(Item::C(0x203E)); } else if x <= 0x7F && x != 0x0E && x != 0x0F { out.push(Item::C(x as u32)); } else { out.push(Item::E(i - 1, i)); },
                        S::Kata => if (0x21..=0x5F).contains(&x) { out.push(Item::C(0xFF61 - 0x21 + x as u32)); } else { out.push(Item::E(i - 1, i)); },
                        _ => if (0x21..=0x7E).contains(&x) { lead = x; lead_at = i - 1; st = S::Trail; } else { out.push(Item::E(i - 1, i)); },
                    }
                }
                S::Trail => {
                    if eof { st = S::Lead; out.push(Item::E(lead_at, n)); continue; }
                    if x == 0x1B { st = S::EscStart; esc_at = i - 1; out.push(Item::E(lead_at, lead_at + 1)); continue; }
                    st = S::Lead;
                    if (0x21..=0x7E).contains(&x) { let p = (lead as usize - 0x21) * 94 + x as usize - 0x21; match if p < 8836 { ix_jis0208().get(p) } else { None } { Some(c) => out.push(Item::C(c)), None => out.push(Item::E(lead_at, lead_at + 2)) } }
                    else { out.push(Item::E(lead_at, lead_at + 2)); }
                }
                S::EscStart => {
                    if !eof && (x == 0x24 || x == 0x28) { lead = x; st = S::Esc; continue; }
                    if !eof { i -= 1; }
                    output = false; st = ost; out.push(Item::E(esc_at, esc_at + 1));
                    if eof { continue; }
                }
                S::Esc => {
                    let l = lead; lead = 0; let mut ns = None;
                    if !eof { if l == 0x28 && x == 0x42 { ns = Some(S::Ascii); } else if l == 0x28 && x == 0x4A { ns = Some(S::Roman); } else if l == 0x28 && x == 0x49 { ns = Some(S::Kata); } else if l == 0x24 && (x == 0x40 || x == 0x42) { ns = Some(S::Lead); } }
                    if let Some(s2) = ns { st = s2; ost = s2; let was = output; output = true; if was { let p = prev_esc.unwrap(); out.push(Item::E(p, p + 3)); } prev_esc = Some(esc_at); continue; }
                    // restore lead and byte
                    if eof { i -= 1; } else { i -= 2; }
                    output = false; st = ost; out.push(Item::E(esc_at, esc_at + 1));
                }
            }
        }
        out
    }

    // ---------------- encoders ----------------
    pub fn encode(&self, enc: &str, cps: &[u32]) -> Vec<EItem> {
        let mut out: Vec<EItem> = vec![];
        let mut push = |out: &mut Vec<EItem>, bs: &[u8]| { if let Some(EItem::B(v)) = out.last_mut() { v.extend_from_slice(bs); } else { out.push(EItem::B(bs.to_vec())); } };
        match enc {
            "UTF-8" | "UTF-16LE" | "UTF-16BE" | "replacement" => { for c in cps { let mut buf = [0u8; 4]; let s = char::from_u32(*c).unwrap().encode_utf8(&mut buf); push(&mut out, s.as_bytes()); } }
            "ISO-2022-JP" => {
                #[derive(PartialEq, Clone, Copy)] enum S { Ascii, Roman, Jis }
                let mut st = S::Ascii; let mut k = 0;
                loop {
                    if k == cps.len() { if st != S::Ascii { push(&mut out, &[0x1B, 0x28, 0x42]); } break; }
                    let mut c = cps[k]; k += 1;
                    if (st == S::Ascii || st == S::Roman) && (c == 0x0E || c == 0x0F || c == 0x1B) { out.push(EItem::U(0xFFFD)); continue; }
                    if st == S::Ascii && c < 0x80 { push(&mut out, &[c as u8]); continue; }
                    if st == S::Roman && ((c < 0x80 && c != 0x5C && c != 0x7E) || c == 0xA5 || c == 0x203E) { let b = if c < 0x80 { c as u8 } else if c == 0xA5 { 0x5C } else { 0x7E }; push(&mut out, &[b]); continue; }
                    if c < 0x80 && st != S::Ascii { k -= 1; st = S::Ascii; push(&mut out, &[0x1B, 0x28, 0x42]); continue; }
                    if (c == 0xA5 || c == 0x203E) && st != S::Roman { k -= 1; st = S::Roman; push(&mut out, &[0x1B, 0x28, 0x4A]); continue; }
                    let orig = c;
                    if c == 0x2212 { c = 0xFF0D; }
                    if (0xFF61..=0xFF9F).contains(&c) { c = KATAKANA[(c - 0xFF61) as usize]; }
                    match jis0208_enc().get(&c) {
                        None => { if st == S::Jis { k -= 1; st = S::Ascii; push(&mut out, &[0x1B, 0x28, 0x42]); continue; } out.push(EItem::U(orig)); }
                        Some(p) => { if st != S::Jis { k -= 1; st = S::Jis; push(&mut out, &[0x1B, 0x24, 0x42]); continue; } assert!(*p < 8836); push(&mut out, &[(p / 94 + 0x21) as u8, (p % 94 + 0x21) as u8]); }
                    }
                }
            }
            _ => { for c in cps { let c = *c; if c < 0x80 { push(&mut out, &[c as u8]); continue; } match self.encode_one(enc, c) { Some(bs) => push(&mut out, &bs), None => out.push(EItem::U(c)) } } }
        }
        out
    }
    fn encode_one(&self, enc: &str, c: u32) -> Option<Vec<u8>> {
        match enc {
            "x-user-defined" => if (0xF780..=0xF7FF).contains(&c) { Some(vec![(c - 0xF780 + 0x80) as u8]) } else { None },
            "Big5" => big5_enc().get(&c).map(|p| { let t = p % 157; vec![(p / 157 + 0x81) as u8, (t + if t < 0x3F { 0x40 } else { 0x62 }) as u8] }),
            "EUC-KR" => euckr_enc().get(&c).map(|p| vec![(p / 190 + 0x81) as u8, (p % 190 + 0x41) as u8]),
            "Shift_JIS" => { if c == 0x80 { return Some(vec![0x80]); } if c == 0xA5 { return Some(vec![0x5C]); } if c == 0x203E { return Some(vec![0x7E]); } if (0xFF61..=0xFF9F).contains(&c) { return Some(vec![(c - 0xFF61 + 0xA1) as u8]); }
                let c = if c == 0x2212 { 0xFF0D } else { c };
                sjis_enc().get(&c).map(|p| { let lead = p / 188; let lo = if lead < 0x1F { 0x81 } else { 0xC1 }; let t = p % 188; vec![(lead + lo) as u8, (t + if t < 0x3F { 0x40 } else { 0x41 }) as u8] }) }
            "EUC-JP" => { if c == 0xA5 { return Some(vec![0x5C]); } if c == 0x203E { return Some(vec![0x7E]); } if (0xFF61..=0xFF9F).contains(&c) { return Some(vec![0x8E, (c - 0xFF61 + 0xA1) as u8]); }
                let c = if c == 0x2212 { 0xFF0D } else { c };
                jis0208_enc().get(&c).map(|p| { assert!(*p < 8836, "jis0208 first pointer {} for {:x}", p, c); vec![(p / 94 + 0xA1) as u8, (p % 94 + 0xA1) as u8] }) }
            "gb18030" | "GBK" => { let gbk = enc == "GBK"; if c == 0xE5E5 { return None; } if gbk && c == 0x20AC { return Some(vec![0x80]); }
                for (pc, bs) in GB2022.iter() { if *pc == c { return Some(bs.to_vec()); } }
                if let Some(p) = gb_enc().get(&c) { let t = p % 190; return Some(vec![(p / 190 + 0x81) as u8, (t + if t < 0x3F { 0x40 } else { 0x41 }) as u8]); }
                if gbk { return None; }
                let p = self.ranges_pointer(c); Some(vec![(p / 12600 + 0x81) as u8, ((p % 12600) / 1260 + 0x30) as u8, ((p % 1260) / 10 + 0x81) as u8, (p % 10 + 0x30) as u8]) }
                        n => single(n).enc.get(&c).map(|p| vec![(*p + 0x80) as u8]),
        }
    }
}
// index ISO-2022-JP katakana: half-width U+FF61.. -> full-width
pub const KATAKANA: [u32; 63] = [0x3002,0x300C,0x300D,0x3001,0x30FB,0x30F2,0x30A1,0x30A3,0x30A5,0x30A7,0x30A9,0x30E3,0x30E5,0x30E7,0x30C3,0x30FC,0x30A2,0x30A4,0x30A6,0x30A8,0x30AA,0x30AB,0x30AD,0x30AF,0x30B1,0x30B3,0x30B5,0x30B7,0x30B9,0x30BB,0x30BD,0x30BF,0x30C1,0x30C4,0x30C6,0x30C8,0x30CA,0x30CB,0x30CC,0x30CD,0x30CE,0x30CF,0x30D2,0x30D5,0x30D8,0x30DB,0x30DE,0x30DF,0x30E0,0x30E1,0x30E2,0x30E4,0x30E6,0x30E8,0x30E9,0x30EA,0x30EB,0x30EC,0x30ED,0x30EF,0x30F3,0x309B,0x309C];

fn dec_utf8(b: &[u8]) -> Vec<Item> {
    let mut out = vec![]; let n = b.len(); let mut i = 0; let (mut cp, mut seen, mut needed, mut lower, mut upper) = (0u32, 0, 0, 0x80u8, 0xBFu8); let mut s = 0;
    loop {
        if i == n { if needed != 0 { out.push(Item::E(s, n)); } break; }
        let x = b[i]; i += 1;
        if needed == 0 {
            s = i - 1;
            match x { 0x00..=0x7F => out.push(Item::C(x as u32)), 0xC2..=0xDF => { needed = 1; cp = (x & 0x1F) as u32; }
                0xE0..=0xEF => { if x == 0xE0 { lower = 0xA0; } if x == 0xED { upper = 0x9F; } needed = 2; cp = (x & 0xF) as u32; }
                0xF0..=0xF4 => { if x == 0xF0 { lower = 0x90; } if x == 0xF4 { upper = 0x8F; } needed = 3; cp = (x & 7) as u32; }
                _ => out.push(Item::E(i - 1, i)) }
            continue;
        }
        if x < lower || x > upper { cp = 0; needed = 0; seen = 0; lower = 0x80; upper = 0xBF; i -= 1; out.push(Item::E(s, i)); continue; }
        lower = 0x80; upper = 0xBF; cp = (cp << 6) | (x & 0x3F) as u32; seen += 1;
        if seen != needed { continue; }
        out.push(Item::C(cp)); cp = 0; needed = 0; seen = 0;
    }
    out
}
fn dec_utf16(b: &[u8], be: bool) -> Vec<Item> {
    let mut out = vec![]; let n = b.len(); let mut i = 0; let mut lb: Option<u8> = None; let mut ls: Option<(u16, usize)> = None; let mut lb_at = 0;
    loop {
        if i == n { if lb.is_some() || ls.is_some() { let s = if let Some((_, a)) = ls { a } else { lb_at }; out.push(Item::E(s, n)); } break; }
        let x = b[i]; i += 1;
        let l = match lb.take() { None => { lb = Some(x); lb_at = i - 1; continue; } Some(l) => l };
        let unit = if be { ((l as u16) << 8) | x as u16 } else { ((x as u16) << 8) | l as u16 }; let at = i - 2;
        if let Some((hs, hat)) = ls.take() {
            if (0xDC00..=0xDFFF).contains(&unit) { out.push(Item::C(0x10000 + (((hs as u32) - 0xD800) << 10) + (unit as u32 - 0xDC00))); continue; }
            i -= 2; out.push(Item::E(hat, hat + 2)); continue;
        }
        if (0xD800..=0xDBFF).contains(&unit) { ls = Some((unit, at)); continue; }
        if (0xDC00..=0xDFFF).contains(&unit) { out.push(Item::E(at, at + 2)); continue; }
        out.push(Item::C(unit as u32));
    }
    out
}
