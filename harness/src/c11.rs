// C11 One-shot convenience API equals the streaming API and borrows only when promised.
// Oracle: the streaming converter fed the whole input (same BOM mode); borrow predicate from the documentation;
// a Borrowed result must alias the caller's slice (pointer + length identity).
use crate::alpha::*;
use crate::drive::*;
use crate::ev::*;
use crate::hist::*;
use crate::model::Item;
use crate::util::*;
use encoding_rs::*;
use std::borrow::Cow;
use std::panic::{catch_unwind, AssertUnwindSafe};

fn bom_len(enc: &'static Encoding, bom: Bom, b: &[u8]) -> usize {
    let s: Option<(&'static Encoding, usize)> = if b.len() >= 3 && b[..3] == [0xEF, 0xBB, 0xBF] { Some((UTF_8, 3)) } else if b.len() >= 2 && b[..2] == [0xFE, 0xFF] { Some((UTF_16BE, 2)) } else if b.len() >= 2 && b[..2] == [0xFF, 0xFE] { Some((UTF_16LE, 2)) } else { None };
    match (bom, s) { (Bom::Sniff, Some((_, l))) => l, (Bom::Remove, Some((e, l))) if e == enc => l, _ => 0 }
}
/// documented borrow promise for decoding `rest` (input after BOM removal) as `eff`
fn promised_borrow_dec(eff: &'static Encoding, rest: &[u8]) -> bool {
    if eff == UTF_8 { std::str::from_utf8(rest).is_ok() }
    else if eff == ISO_2022_JP { rest.iter().all(|b| *b < 0x80 && !matches!(*b, 0x0E | 0x0F | 0x1B)) }
    else if eff.is_ascii_compatible() { rest.iter().all(|b| *b < 0x80) }
    else { false }
}
fn aliases(c: &Cow<str>, whole: &[u8], off: usize) -> bool { c.len() == 0 || (c.as_ptr() as usize == whole.as_ptr() as usize + off && c.len() == whole.len() - off) }

pub fn check_decode(drv: &mut Driver, ev: &mut Ev, enc: &'static Encoding, input: &[u8], sa: usize, enumerated: bool) {
    let tr = ev.case();
    // the caller's own bytes live in a guarded, aligned source buffer
    let nontrivial = input.iter().any(|x| *x >= 0x80 || *x == 0x1B);
    if nontrivial { if enumerated { ev.nontrivial_enum(); } else { ev.nontrivial_hash(H::new().s(enc.name()).b(input).get()); } }
    for (api, bom, repl) in [("decode", Bom::Sniff, true), ("decode_with_bom_removal", Bom::Remove, true), ("decode_without_bom_handling", Bom::Off, true), ("decode_without_bom_handling_and_without_replacement", Bom::Off, false)] {
        ev.api_calls += 1; ev.count("oneshot-diff.decode-calls");
        // (re-carved for every call: the streaming reference below reuses the source arena)
        let b: &[u8] = { let s = drv.src8.carve_from(input, sa); unsafe { std::slice::from_raw_parts(s.as_ptr(), s.len()) } };
        let r = catch_unwind(AssertUnwindSafe(|| -> (Option<(Vec<u32>, bool, bool, bool)>, Option<&'static Encoding>, bool) {
            match api {
                "decode" => { let (c, e, h) = enc.decode(b); (Some((str_scalars(&c), h, matches!(c, Cow::Borrowed(_)), aliases(&c, b, bom_len(enc, bom, b)))), Some(e), std::str::from_utf8(c.as_bytes()).is_ok()) }
                "decode_with_bom_removal" => { let (c, h) = enc.decode_with_bom_removal(b); (Some((str_scalars(&c), h, matches!(c, Cow::Borrowed(_)), aliases(&c, b, bom_len(enc, bom, b)))), None, true) }
                "decode_without_bom_handling" => { let (c, h) = enc.decode_without_bom_handling(b); (Some((str_scalars(&c), h, matches!(c, Cow::Borrowed(_)), aliases(&c, b, 0))), None, true) }
                _ => match enc.decode_without_bom_handling_and_without_replacement(b) { Some(c) => (Some((str_scalars(&c), false, matches!(c, Cow::Borrowed(_)), aliases(&c, b, 0))), None, true), None => (None, None, true) },
            }
        }));
        let key = |k: &str| format!("{}:{}:{}", crate::c01::family(enc), api, k);
        let desc = || format!("enc={} api={} input={} (len {}, src alignment {})", enc.name(), api, hexs(input), input.len(), sa);
        let (got, used, _) = match r { Ok(x) => x, Err(e) => { ev.violation("oneshot-diff", &key("panic"), format!("one-shot call panicked: {} | {}", panic_message(&e), desc())); continue; } };
        // streaming reference
        if !repl && input.len() > 256 {
            // long input: the recording driver re-carves the rest of the stream after every Malformed result (quadratic for
            // streams of thousands of errors); only "is there a malformed sequence, and the text if not" is needed here
            let mut d = enc.new_decoder_without_bom_handling();
            let mut buf = vec![0u8; d.max_utf8_buffer_length_without_replacement(input.len()).unwrap_or(input.len() * 3 + 16)];
            let (res, _rd, wr) = d.decode_to_utf8_without_replacement(input, &mut buf, true); ev.api_calls += 1;
            let malformed = matches!(res, DecoderResult::Malformed(..));
            if res == DecoderResult::OutputFull { ev.count("oneshot-diff.reference-run-failed"); continue; }
            match got {
                None => { if !malformed { ev.violation("oneshot-diff", &key("None-without-malformed"), format!("returned None but the streaming decoder reports no malformed sequence | {}", desc())); } }
                Some((text, _, borrowed, alias)) => {
                    if malformed { ev.violation("oneshot-diff", &key("Some-with-malformed"), format!("returned Some although the streaming decoder reports a malformed sequence | {}", desc())); }
                    else if text != str_scalars(std::str::from_utf8(&buf[..wr]).unwrap_or("")) { ev.violation("oneshot-diff", &key("text"), format!("one-shot text differs from streaming | {}", desc())); }
                    if promised_borrow_dec(enc, input) && !borrowed { ev.violation("borrow", &key("not-borrowed-when-promised"), format!("documentation promises a borrow here but the result is Owned | {}", desc())); }
                    if borrowed && !alias { ev.violation("borrow", &key("borrow-does-not-alias-input"), format!("Borrowed result does not alias the caller's bytes | {}", desc())); }
                }
            }
            ev.state(H::new().s(crate::c01::family(enc)).s(api).u(malformed as u64).get(), || format!("{} {} malformed={}", crate::c01::family(enc), api, malformed));
            continue;
        }
        let case = DecCase::whole(enc, bom, Sink::U8, repl, input);
        let s = drv.run_dec(&case, ev);
        if s.fail_of(&[FailKind::Panic, FailKind::Stuck]).is_some() { ev.count("oneshot-diff.reference-run-failed"); continue; }
        if tr { println!("TRACE {} -> one-shot {:?} used={:?} | streaming items [{}] had={} encoding={}", desc(), got.as_ref().map(|g| (hex32(&g.0), g.1, g.2)), used.map(|e| e.name()), fmt_items(&s.items), s.had_any, s.final_enc.unwrap().name()); }
        let off = bom_len(enc, bom, input);
        let eff = model_decode_stream(enc, bom, &input[..input.len().min(3)]).0; // the encoding switch is decided by the first three bytes
        if repl {
            let (text, had, borrowed, alias) = got.unwrap();
            if text != s.scalars() { ev.violation("oneshot-diff", &key("text"), format!("one-shot text [{}] differs from streaming [{}] | {}", hex32(&text), hex32(&s.scalars()), desc())); }
            if had != s.had_any { ev.violation("oneshot-diff", &key("had_errors"), format!("one-shot had_errors={} streaming={} | {}", had, s.had_any, desc())); }
            if let Some(u) = used { if Some(u) != s.final_enc && !input.is_empty() { ev.violation("oneshot-diff", &key("encoding-used"), format!("one-shot reports {} but the streaming decoder ends as {} | {}", u.name(), s.final_enc.unwrap().name(), desc())); } }
            ev.count("borrow.checks");
            if promised_borrow_dec(eff, &input[off..]) && !borrowed { ev.violation("borrow", &key("not-borrowed-when-promised"), format!("documentation promises a borrow here but the result is Owned | {}", desc())); }
            if borrowed && !alias { ev.violation("borrow", &key("borrow-does-not-alias-input"), format!("Borrowed result does not alias the caller's bytes after the {}-byte BOM | {}", off, desc())); }
            ev.state(H::new().s(crate::c01::family(enc)).s(api).u(borrowed as u64).u(had as u64).get(), || format!("{} {} borrowed={} had_errors={}", crate::c01::family(enc), api, borrowed, had));
        } else {
            let malformed = s.items.iter().any(|i| matches!(i, Item::E(..)));
            match got {
                None => { if !malformed { ev.violation("oneshot-diff", &key("None-without-malformed"), format!("returned None but the streaming decoder reports no malformed sequence | {}", desc())); } }
                Some((text, _, borrowed, alias)) => {
                    if malformed { ev.violation("oneshot-diff", &key("Some-with-malformed"), format!("returned Some although the stream contains a malformed sequence [{}] | {}", fmt_items(&s.items), desc())); }
                    else if text != s.scalars() { ev.violation("oneshot-diff", &key("text"), format!("one-shot text [{}] differs from streaming [{}] | {}", hex32(&text), hex32(&s.scalars()), desc())); }
                    if promised_borrow_dec(enc, input) && !borrowed { ev.violation("borrow", &key("not-borrowed-when-promised"), format!("documentation promises a borrow here but the result is Owned | {}", desc())); }
                    if borrowed && !alias { ev.violation("borrow", &key("borrow-does-not-alias-input"), format!("Borrowed result does not alias the caller's bytes | {}", desc())); }
                }
            }
            ev.state(H::new().s(crate::c01::family(enc)).s(api).u(malformed as u64).get(), || format!("{} {} malformed={}", crate::c01::family(enc), api, malformed));
        }
    }
    ev.sample(|| format!("decode* enc={} input={}", enc.name(), hexs(input)));
}

pub fn check_encode(drv: &mut Driver, ev: &mut Ev, enc: &'static Encoding, text: &[u32], sa: usize, enumerated: bool) {
    let tr = ev.case();
    let st = scalars_to_string(text);
    let sb: &[u8] = { let s = drv.src8.carve_from(st.as_bytes(), sa); unsafe { std::slice::from_raw_parts(s.as_ptr(), s.len()) } };
    let s: &str = unsafe { std::str::from_utf8_unchecked(sb) };
    ev.api_calls += 1; ev.count("oneshot-diff.encode-calls");
    if text.iter().any(|c| *c >= 0x80 || *c == 0x1B) { if enumerated { ev.nontrivial_enum(); } else { ev.nontrivial_hash(H::new().s(enc.name()).u32s(text).u(2).get()); } }
    let key = |k: &str| format!("{}:encode:{}", crate::c01::ofam(enc), k);
    let desc = || format!("enc={} api=encode text=[{}] ({} bytes)", enc.name(), hex32(&text[..text.len().min(64)]), st.len());
    let r = catch_unwind(AssertUnwindSafe(|| { let (c, e, h) = enc.encode(s); (c.to_vec(), e, h, matches!(c, Cow::Borrowed(_)), c.len() == 0 || (c.as_ptr() == s.as_ptr() && c.len() == s.len())) }));
    let (bytes, used, had, borrowed, alias) = match r { Ok(x) => x, Err(e) => { ev.violation("oneshot-diff", &key("panic"), format!("one-shot call panicked: {} | {}", panic_message(&e), desc())); return; } };
    let case = EncCase::whole(enc, false, true, text);
    let o = drv.run_enc(&case, ev);
    if o.fail_of(&[FailKind::Panic, FailKind::Stuck]).is_some() { ev.count("oneshot-diff.reference-run-failed"); return; }
    if tr { println!("TRACE {} -> one-shot {} had={} borrowed={} | streaming {} had={}", desc(), hex(&bytes), had, borrowed, hex(&o.bytes), o.had_any); }
    if bytes != o.bytes { ev.violation("oneshot-diff", &key("bytes"), format!("one-shot bytes {} differ from streaming {} | {}", hexs(&bytes), hexs(&o.bytes), desc())); }
    if had != o.had_any { ev.violation("oneshot-diff", &key("had_unmappables"), format!("one-shot had_unmappables={} streaming={} | {}", had, o.had_any, desc())); }
    if used != enc.output_encoding() || used != enc.new_encoder().encoding() { ev.violation("oneshot-diff", &key("encoding-used"), format!("encode reports {} but new_encoder() uses {} | {}", used.name(), enc.new_encoder().encoding().name(), desc())); }
    let oe = enc.output_encoding();
    let promised = oe == UTF_8 || (oe == ISO_2022_JP && st.bytes().all(|b| b < 0x80 && !matches!(b, 0x0E | 0x0F | 0x1B))) || (oe != ISO_2022_JP && oe.is_ascii_compatible() && st.is_ascii());
    ev.count("borrow.checks");
    if promised && !borrowed { ev.violation("borrow", &key("not-borrowed-when-promised"), format!("documentation promises a borrow here but the result is Owned | {}", desc())); }
    if borrowed && !alias { ev.violation("borrow", &key("borrow-does-not-alias-input"), format!("Borrowed result does not alias the caller's str | {}", desc())); }
    ev.state(H::new().s(oe.name()).u(borrowed as u64).u(had as u64).u(11).get(), || format!("encode {} borrowed={} had_unmappables={}", oe.name(), borrowed, had));
}

pub fn run(ctx: &Ctx, ev: &mut Ev) {
    let mut drv = Driver::new();
    let th = ctx.thorough();
    let tiny = ctx.mode == Mode::Miri || ctx.mode == Mode::Vg;
    // (a) first non-ASCII / invalid / escape unit at every position modulo 64 of ASCII runs, all 40 encodings
    if ctx.want("sweep") {
        let lens: Vec<usize> = if tiny { vec![0, 1, 15, 17, 33] } else if th { (0..=130).chain([255, 256, 257, 1000, 4095, 4096]).collect() } else { (0..=70).chain([127, 128, 129, 1000, 4096]).collect() };
        for &enc in ALL.iter() {
            let alpha = byte_alpha(enc);
            for &len in lens.iter() {
                if !ev.mine() { continue; }
                let base: Vec<u8> = (0..len).map(|i| if enc == UTF_16LE || enc == UTF_16BE { if (i % 2 == 0) == (enc == UTF_16LE) { 0x61 + (i / 2 % 26) as u8 } else { 0 } } else { 0x61 + (i % 26) as u8 }).collect();
                check_decode(&mut drv, ev, enc, &base, len % 16, true);
                let positions: Vec<usize> = if len <= 70 { (0..len).collect() } else { (0..len).filter(|p| *p < 2 || *p + 3 > len || p % 61 == 0).collect() };
                for pos in positions {
                    for (k, x) in alpha.iter().enumerate() {
                        if *x < 0x80 && *x != 0x1B && *x != 0x0E { continue; }
                        if !th && len > 20 && (pos + k) % 3 != 0 { continue; }
                        let mut v = base.clone(); v[pos] = *x;
                        check_decode(&mut drv, ev, enc, &v, (pos + k) % 16, true);
                    }
                }
                // BOMs in front
                for bom in [&[0xEFu8, 0xBB, 0xBF][..], &[0xFE, 0xFF], &[0xFF, 0xFE], &[0xEF, 0xBB], &[0xEF, 0xBB, 0xBF, 0xEF, 0xBB, 0xBF], &[0xFF, 0xFE, 0xFF, 0xFE], &[0xFE, 0xFF, 0xFE, 0xFF], &[0xEF, 0xBB, 0xBF, 0xFF, 0xFE], &[0xFF, 0xFE, 0xEF, 0xBB, 0xBF], &[0xFE, 0xFF, 0xFF, 0xFE]] { let mut v = bom.to_vec(); v.extend_from_slice(&base); check_decode(&mut drv, ev, enc, &v, len % 16, true); }
                // encode: ASCII text with one non-ASCII / escape character at each position
                let tbase: Vec<u32> = (0..len.min(300)).map(|i| 0x61 + (i % 26) as u32).collect();
                check_encode(&mut drv, ev, enc, &tbase, len % 16, true);
                for pos in (0..tbase.len()).filter(|p| len <= 70 || p % 61 == 0 || *p + 2 > tbase.len()) { for (k, c) in [0xE9u32, 0x1B, 0x3042, 0x2603, 0x1F4A9, 0x0E].iter().enumerate() { if !th && (pos + k) % 2 != 0 { continue; } let mut t = tbase.clone(); t[pos] = *c; check_encode(&mut drv, ev, enc, &t, (pos + k) % 16, true); } }
            }
        }
    }
    // (a2) valid non-ASCII UTF-8 (the borrow promise for UTF-8 and for BOM-switched decodes): every sequence of <= 5
    // characters over one character of each UTF-8 length after ASCII pads of 0..3 and 59..62 bytes (both sides of the 64-byte validator switch)
    if ctx.want("utf8valid") {
        let chars: [&str; 4] = ["a", "\u{E9}", "\u{20AC}", "\u{1F600}"];
        let idx = [0usize, 1, 2, 3];
        for seq in strings_over(&idx, if tiny { 2 } else if th { 6 } else { 5 }).iter() {
            if !ev.mine() { continue; }
            let h = seq.iter().fold(3usize, |a, b| a * 5 + b);
            for pad in [0usize, 1, 2, 3, 59, 60, 61, 62] {
                if tiny && pad != h % 4 { continue; }
                if pad >= 59 && !th && h % 4 != pad % 4 { continue; }
                let mut t = String::new(); for i in 0..pad { t.push((b'a' + (i % 26) as u8) as char); } for k in seq { t.push_str(chars[*k]); }
                check_decode(&mut drv, ev, UTF_8, t.as_bytes(), (h + pad) % 16, true);
                if h % 5 == 0 { let mut v = vec![0xEFu8, 0xBB, 0xBF]; v.extend_from_slice(t.as_bytes()); check_decode(&mut drv, ev, ALL[h % 40], &v, h % 16, true); check_decode(&mut drv, ev, UTF_8, &v, h % 16, true); }
                // ... and the same text with its last byte removed (None / replacement instead of a borrow)
                if h % 3 == 0 && !t.is_empty() { check_decode(&mut drv, ev, UTF_8, &t.as_bytes()[..t.len() - 1], h % 16, true); }
                if h % 7 == 0 { let sc: Vec<u32> = t.chars().map(|c| c as u32).collect(); check_encode(&mut drv, ev, ALL[h % 40], &sc, h % 16, true); }
            }
        }
    }
    // (a3) dense: maximal-expansion streams of every length (0..1500 quick, 0..4500 thorough, then both sides of powers of two / page multiples) across the one-shot APIs' allocation decisions (first
    // allocation = min(next_power_of_two(without-replacement bound), with-replacement bound), reserve + retry on
    // OutputFull), ending in tails that leave the converter owing output when the input runs out
    if ctx.want("dense") && !tiny {
        let sm = ctx.stride_mult() as usize;
        let maxn: usize = if th { 4500 } else { 1500 };
        let near = |x: usize| -> bool { let mut p = 64usize; while p <= 1 << 17 { if x + 6 >= p && x <= p + 6 { return true; } p *= 2; } let m = x % 4096; x > 4000 && (m <= 6 || m >= 4090) };
        let encs: [&'static Encoding; 14] = [ISO_2022_JP, GB18030, GBK, UTF_16LE, UTF_16BE, UTF_8, EUC_KR, EUC_JP, SHIFT_JIS, BIG5, WINDOWS_1252, X_USER_DEFINED, REPLACEMENT, IBM866];
        for &enc in encs.iter() {
            let heads: Vec<Vec<u8>> = if enc == UTF_16LE { vec![vec![0x00, 0xD8], vec![0x00, 0x4E], vec![0x3D, 0xD8, 0xA9, 0xDC]] } else if enc == UTF_16BE { vec![vec![0xD8, 0x00], vec![0x4E, 0x00], vec![0xD8, 0x3D, 0xDC, 0xA9]] }
                else if enc == UTF_8 { vec![vec![0xFF], vec![0xC3, 0xA9], vec![0xE2, 0x82, 0xAC]] }
                else if enc == ISO_2022_JP { vec![vec![0xFF], vec![0x1B, 0x28, 0x49, 0x31], vec![0x0E]] }
                else if enc == GB18030 || enc == GBK { vec![vec![0xFF], vec![0xA1, 0xA1], vec![0x81, 0x30, 0x81, 0x30]] }
                else if enc == EUC_KR { vec![vec![0xFF], vec![0xB0, 0xA1]] } else if enc == EUC_JP { vec![vec![0xFF], vec![0x8E, 0xB1], vec![0xA4, 0xA2]] }
                else if enc == SHIFT_JIS { vec![vec![0xB1], vec![0x82, 0xA0], vec![0xFF]] } else if enc == BIG5 { vec![vec![0xFF], vec![0x88, 0x62], vec![0xA4, 0x40]] }
                else { vec![vec![0x80], vec![0xE9]] };
            let tails: Vec<&[u8]> = if enc == ISO_2022_JP { vec![&[], &[0x1B], &[0x1B, 0x24], &[0x1B, 0x28], &[0x24], &[0x1B, 0x24, 0x42, 0x24]] } else if enc == GB18030 || enc == GBK { vec![&[], &[0x81], &[0x81, 0x30], &[0x81, 0x30, 0x81], &[0x61]] }
                else if enc == UTF_16LE || enc == UTF_16BE { vec![&[], &[0xD8], &[0x00, 0xD8], &[0xD8, 0x00], &[0x61, 0x00, 0x61]] } else if enc == UTF_8 { vec![&[], &[0xC3], &[0xE2, 0x82], &[0xF0, 0x9F, 0x92], &[0x61]] }
                else if enc == EUC_JP { vec![&[], &[0x8E], &[0x8F], &[0x8F, 0xA1], &[0x61]] } else { vec![&[], &[0x81], &[0x61]] };
            for n in 0..=(if th { 1 << 16 } else { 1 << 14 }) {
                if n > maxn && !near(n) && !near(n * 2) && !near(n * 3) && !near(n * 4) { continue; }
                for (hi, h) in heads.iter().enumerate() {
                    if n * h.len() > (if th { 1 << 17 } else { 1 << 15 }) { continue; }
                    if !ev.mine() { continue; }
                    if sm > 1 && n > 64 && (n + hi) % sm != (ctx.seed as usize) % sm && !near(n * h.len()) && !near(n * h.len() * 3) && !near(n * 3) { continue; }
                    let mut v: Vec<u8> = Vec::with_capacity(n * h.len() + 8);
                    for _ in 0..n { v.extend_from_slice(h); }
                    let l0 = v.len();
                    for t in tails.iter() { v.truncate(l0); v.extend_from_slice(t); check_decode(&mut drv, ev, enc, &v, (n + hi) % 16, true); }
                    // the same after an ASCII prefix (valid_up_to > 0 takes the other allocation arm)
                    if n % 3 == 0 && enc.is_ascii_compatible() { let mut w = b"abcdefg".to_vec(); w.extend_from_slice(&v[..l0]); w.extend_from_slice(tails[(n / 3) % tails.len()]); check_decode(&mut drv, ev, enc, &w, n % 16, true); }
                }
            }
        }
        // encode: runs of one character (two-byte, escape-switching, unmappable -> NCR growth) of every length, tails that
        // leave ISO-2022-JP owing its final escape or force a last-moment NCR
        let heads: [u32; 9] = [0xE9, 0x3042, 0xAC00, 0x4E00, 0xFF71, 0xA5, 0x2603, 0x1F4A9, 0x80];
        let tails: [&[u32]; 5] = [&[], &[0x61], &[0xA5], &[0x2603], &[0x3042, 0x1F4A9]];
        let emax = if th { 3000 } else { 700 };
        for &enc in encoder_families().iter() {
            if enc == UTF_8 || enc == UTF_16LE { continue; }
            for n in 0..=(if th { 1 << 14 } else { 1 << 12 }) {
                if n > emax && !near(n) && !near(n * 2) && !near(n * 3) { continue; }
                for (hi, h) in heads.iter().enumerate() {
                    if !ev.mine() { continue; }
                    if sm > 1 && n > 64 && (n + hi) % sm != (ctx.seed as usize) % sm && !near(n) && !near(n * 2) && !near(n * 3) { continue; }
                    let mut t: Vec<u32> = vec![*h; n];
                    for tl in tails.iter() { t.truncate(n); t.extend_from_slice(tl); check_encode(&mut drv, ev, enc, &t, (n + hi) % 16, true); }
                    if n % 3 == 0 { let mut w: Vec<u32> = vec![0x61; 5]; w.extend_from_slice(&t[..n]); w.extend_from_slice(tails[(n / 3) % tails.len()]); check_encode(&mut drv, ev, enc, &w, n % 16, true); }
                }
            }
        }
    }
    // (b) hostile tails after long valid prefixes (reserve retry path: many errors / unmappables after a long valid prefix)
    if ctx.want("random") {
        let mut r = ctx.rng(11);
        let n = ctx.budget(60_000, 10_000_000);
        for i in 0..n {
            let enc = ALL[r.below(40)];
            let mut v: Vec<u8> = vec![];
            if r.chance(3) { for _ in 0..1 + r.below(2) { v.extend_from_slice([&[0xEFu8, 0xBB, 0xBF][..], &[0xFE, 0xFF], &[0xFF, 0xFE], &[0xEF, 0xBB], &[0xFE]][r.below(5)]); } }
            let plen = if i % 20 == 0 && !tiny { r.below(4200) } else { r.below(if tiny { 20 } else { 200 }) };
            for k in 0..plen { v.push(0x61 + (k % 26) as u8); }
            let tail = random_stream(&mut r, enc, if tiny { 1 } else { 4 }); v.extend_from_slice(&tail[..tail.len().min(400)]);
            if r.chance(4) { for _ in 0..r.below(if tiny { 6 } else { 300 }) { v.push(*r.pick(&[0xFFu8, 0x80, 0x81, 0x1B])); } }
            check_decode(&mut drv, ev, enc, &v, r.below(16), false);
            let mut t: Vec<u32> = (0..(if i % 20 == 0 && !tiny { r.below(2000) } else { r.below(if tiny { 10 } else { 100 }) })).map(|k| 0x61 + (k % 26) as u32).collect();
            t.extend(random_text(&mut r, 3, false).into_iter().take(300));
            if r.chance(4) { for _ in 0..r.below(if tiny { 5 } else { 200 }) { t.push(*r.pick(&[0x2603u32, 0x1F4A9, 0x10FFFF, 0x1B])); } }
            check_encode(&mut drv, ev, enc, &t, r.below(16), false);
        }
    }
}
