// Uniform runner + std-based reference for every public conversion in encoding_rs::mem.
use crate::arena::*;
use crate::drive::Driver;
use crate::util::*;
use encoding_rs::mem::*;
use std::panic::{catch_unwind, AssertUnwindSafe};

#[derive(Clone, Copy, PartialEq, Eq, Debug, Hash)]
pub enum MemFn {
    Utf8ToUtf16, StrToUtf16, Utf8ToUtf16NoRepl, Utf16ToUtf8Partial, Utf16ToUtf8, Utf16ToStrPartial, Utf16ToStr,
    Latin1ToUtf16, Latin1ToUtf8Partial, Latin1ToUtf8, Latin1ToStrPartial, Latin1ToStr, Utf8ToLatin1Lossy, Utf16ToLatin1Lossy,
    EnsureUtf16Validity, CopyAsciiToAscii, CopyAsciiToBasicLatin, CopyBasicLatinToAscii, DecodeLatin1, EncodeLatin1Lossy,
}
pub use MemFn::*;
pub const ALL_MEM: [MemFn; 20] = [Utf8ToUtf16, StrToUtf16, Utf8ToUtf16NoRepl, Utf16ToUtf8Partial, Utf16ToUtf8, Utf16ToStrPartial, Utf16ToStr,
    Latin1ToUtf16, Latin1ToUtf8Partial, Latin1ToUtf8, Latin1ToStrPartial, Latin1ToStr, Utf8ToLatin1Lossy, Utf16ToLatin1Lossy,
    EnsureUtf16Validity, CopyAsciiToAscii, CopyAsciiToBasicLatin, CopyBasicLatinToAscii, DecodeLatin1, EncodeLatin1Lossy];

#[derive(Clone, Copy, PartialEq, Eq, Debug)]
pub enum SrcKind { Bytes, Str, Latin1Str, Units, Latin1Units }
#[derive(Clone, Copy, PartialEq, Eq, Debug)]
pub enum DstKind { D8, D16, DStr, InPlace, Cow }

impl MemFn {
    pub fn name(&self) -> &'static str {
        match self { Utf8ToUtf16 => "convert_utf8_to_utf16", StrToUtf16 => "convert_str_to_utf16", Utf8ToUtf16NoRepl => "convert_utf8_to_utf16_without_replacement",
            Utf16ToUtf8Partial => "convert_utf16_to_utf8_partial", Utf16ToUtf8 => "convert_utf16_to_utf8", Utf16ToStrPartial => "convert_utf16_to_str_partial", Utf16ToStr => "convert_utf16_to_str",
            Latin1ToUtf16 => "convert_latin1_to_utf16", Latin1ToUtf8Partial => "convert_latin1_to_utf8_partial", Latin1ToUtf8 => "convert_latin1_to_utf8", Latin1ToStrPartial => "convert_latin1_to_str_partial",
            Latin1ToStr => "convert_latin1_to_str", Utf8ToLatin1Lossy => "convert_utf8_to_latin1_lossy", Utf16ToLatin1Lossy => "convert_utf16_to_latin1_lossy", EnsureUtf16Validity => "ensure_utf16_validity",
            CopyAsciiToAscii => "copy_ascii_to_ascii", CopyAsciiToBasicLatin => "copy_ascii_to_basic_latin", CopyBasicLatinToAscii => "copy_basic_latin_to_ascii", DecodeLatin1 => "decode_latin1", EncodeLatin1Lossy => "encode_latin1_lossy" }
    }
    pub fn src_kind(&self) -> SrcKind {
        match self { Utf8ToUtf16 | Utf8ToUtf16NoRepl | Latin1ToUtf16 | Latin1ToUtf8Partial | Latin1ToUtf8 | Latin1ToStrPartial | Latin1ToStr | CopyAsciiToAscii | CopyAsciiToBasicLatin | DecodeLatin1 => SrcKind::Bytes,
            StrToUtf16 => SrcKind::Str, Utf8ToLatin1Lossy | EncodeLatin1Lossy => SrcKind::Latin1Str, Utf16ToLatin1Lossy => SrcKind::Latin1Units, _ => SrcKind::Units }
    }
    pub fn dst_kind(&self) -> DstKind {
        match self { Utf8ToUtf16 | StrToUtf16 | Utf8ToUtf16NoRepl | Latin1ToUtf16 | CopyAsciiToBasicLatin => DstKind::D16,
            Utf16ToStrPartial | Utf16ToStr | Latin1ToStrPartial | Latin1ToStr => DstKind::DStr, EnsureUtf16Validity => DstKind::InPlace, DecodeLatin1 | EncodeLatin1Lossy => DstKind::Cow, _ => DstKind::D8 }
    }
    pub fn partial(&self) -> bool { matches!(self, Utf16ToUtf8Partial | Utf16ToStrPartial | Latin1ToUtf8Partial | Latin1ToStrPartial) }
    /// documented sufficient destination length; for the partial forms the length at which everything fits
    pub fn sufficient(&self, srclen: usize) -> usize {
        match self { Utf8ToUtf16 => srclen + 1, Utf16ToUtf8Partial | Utf16ToUtf8 | Utf16ToStrPartial | Utf16ToStr => srclen * 3, Latin1ToUtf8Partial | Latin1ToUtf8 | Latin1ToStrPartial | Latin1ToStr => srclen * 2,
            EnsureUtf16Validity | DecodeLatin1 | EncodeLatin1Lossy => 0, _ => srclen }
    }
    /// does the function document a panic for a destination shorter than `sufficient`?
    pub fn panics_when_short(&self) -> bool { !self.partial() && !matches!(self.dst_kind(), DstKind::InPlace | DstKind::Cow) }
}

#[derive(Clone, Debug, Default)]
pub struct Src { pub bytes: Vec<u8>, pub units: Vec<u16> }
impl Src {
    pub fn len(&self, f: MemFn) -> usize { if matches!(f.src_kind(), SrcKind::Units | SrcKind::Latin1Units) { self.units.len() } else { self.bytes.len() } }
    pub fn describe(&self, f: MemFn) -> String { if matches!(f.src_kind(), SrcKind::Units | SrcKind::Latin1Units) { format!("units=[{}]", hex16(&self.units)) } else { format!("bytes={}", hexs(&self.bytes)) } }
}

#[derive(Clone, Debug, Default, PartialEq, Eq)]
pub struct MemOut {
    /// return values: (read or -1, written or -1); None result = (-2, -2)
    pub ret: (i64, i64),
    pub dst8: Vec<u8>,
    pub dst16: Vec<u16>,
    pub panic: Option<String>,
    pub guard: Option<String>,
    pub borrowed: Option<bool>,
}

impl Driver {
    /// Run one mem function. The destination has exactly `dst_len` units, is pre-filled with `fill`
    /// (`&mut str` destinations with a valid filler selected by `filler`) and is surrounded by guards.
    pub fn run_mem(&mut self, f: MemFn, src: &Src, dst_len: usize, fill: u8, sa: usize, da: usize, filler: usize) -> MemOut {
        let mut o = MemOut { ret: (-1, -1), ..Default::default() };
        let fill16 = (fill as u16) << 8 | fill as u16;
        let s8: &[u8] = { let s = self.src8.carve_from(&src.bytes, sa); unsafe { std::slice::from_raw_parts(s.as_ptr(), s.len()) } };
        let s16: &[u16] = { let s = self.src16.carve_from(&src.units, sa); unsafe { std::slice::from_raw_parts(s.as_ptr(), s.len()) } };
        match f.dst_kind() {
            DstKind::D16 => {
                let d = self.dst16.carve(dst_len, da, fill16);
                let r = catch_unwind(AssertUnwindSafe(|| match f {
                    Utf8ToUtf16 => (-1, convert_utf8_to_utf16(s8, d) as i64),
                    StrToUtf16 => (-1, convert_str_to_utf16(unsafe { std::str::from_utf8_unchecked(s8) }, d) as i64),
                    Utf8ToUtf16NoRepl => match convert_utf8_to_utf16_without_replacement(s8, d) { Some(w) => (-1, w as i64), None => (-2, -2) },
                    Latin1ToUtf16 => { convert_latin1_to_utf16(s8, d); (-1, s8.len() as i64) }
                    CopyAsciiToBasicLatin => (-1, copy_ascii_to_basic_latin(s8, d) as i64),
                    _ => unreachable!(),
                }));
                match r { Ok(x) => o.ret = x, Err(e) => o.panic = Some(panic_message(&e)) }
                o.guard = self.dst16.check();
                o.dst16 = self.dst16.get().to_vec();
            }
            DstKind::D8 | DstKind::DStr => {
                let d = self.dst8.carve(dst_len, da, fill);
                if f.dst_kind() == DstKind::DStr { fill_valid_utf8(d, filler, filler / 4); }
                let r = catch_unwind(AssertUnwindSafe(|| match f {
                    Utf16ToUtf8Partial => { let (r, w) = convert_utf16_to_utf8_partial(s16, d); (r as i64, w as i64) }
                    Utf16ToUtf8 => (-1, convert_utf16_to_utf8(s16, d) as i64),
                    Utf16ToStrPartial => { let (r, w) = convert_utf16_to_str_partial(s16, std::str::from_utf8_mut(d).unwrap()); (r as i64, w as i64) }
                    Utf16ToStr => (-1, convert_utf16_to_str(s16, std::str::from_utf8_mut(d).unwrap()) as i64),
                    Latin1ToUtf8Partial => { let (r, w) = convert_latin1_to_utf8_partial(s8, d); (r as i64, w as i64) }
                    Latin1ToUtf8 => (-1, convert_latin1_to_utf8(s8, d) as i64),
                    Latin1ToStrPartial => { let (r, w) = convert_latin1_to_str_partial(s8, std::str::from_utf8_mut(d).unwrap()); (r as i64, w as i64) }
                    Latin1ToStr => (-1, convert_latin1_to_str(s8, std::str::from_utf8_mut(d).unwrap()) as i64),
                    Utf8ToLatin1Lossy => (-1, convert_utf8_to_latin1_lossy(s8, d) as i64),
                    Utf16ToLatin1Lossy => { convert_utf16_to_latin1_lossy(s16, d); (-1, s16.len() as i64) }
                    CopyAsciiToAscii => (-1, copy_ascii_to_ascii(s8, d) as i64),
                    CopyBasicLatinToAscii => (-1, copy_basic_latin_to_ascii(s16, d) as i64),
                    _ => unreachable!(),
                }));
                match r { Ok(x) => o.ret = x, Err(e) => o.panic = Some(panic_message(&e)) }
                o.guard = self.dst8.check();
                o.dst8 = self.dst8.get().to_vec();
            }
            DstKind::InPlace => {
                let d = self.dst16.carve(src.units.len(), da, 0);
                d.copy_from_slice(&src.units);
                let r = catch_unwind(AssertUnwindSafe(|| ensure_utf16_validity(d)));
                if let Err(e) = r { o.panic = Some(panic_message(&e)); }
                o.guard = self.dst16.check();
                o.dst16 = self.dst16.get().to_vec();
            }
            DstKind::Cow => {
                let r = catch_unwind(AssertUnwindSafe(|| match f {
                    DecodeLatin1 => { let c = decode_latin1(s8); let b = matches!(c, std::borrow::Cow::Borrowed(_)); (c.as_bytes().to_vec(), b) }
                    EncodeLatin1Lossy => { let c = encode_latin1_lossy(unsafe { std::str::from_utf8_unchecked(s8) }); let b = matches!(c, std::borrow::Cow::Borrowed(_)); (c.to_vec(), b) }
                    _ => unreachable!(),
                }));
                match r { Ok((v, b)) => { o.ret = (-1, v.len() as i64); o.dst8 = v; o.borrowed = Some(b); } Err(e) => o.panic = Some(panic_message(&e)) }
            }
        }
        o
    }
}

#[derive(Clone, Copy, PartialEq, Eq, Debug)]
pub enum Beyond { Unmodified, Unspecified, ValidStr }
#[derive(Clone, Debug)]
pub struct Exp { pub ret: (i64, i64), pub prefix8: Vec<u8>, pub prefix16: Vec<u16>, pub beyond: Beyond, pub panics: bool, pub borrowed: Option<bool>, pub content_unspecified: bool }

fn lossy16(u: &[u16]) -> Vec<char> { char::decode_utf16(u.iter().copied()).map(|x| x.unwrap_or('\u{FFFD}')).collect() }

/// std-library based reference for `f` on `src` with a destination of `dst_len` units.
pub fn expect(f: MemFn, src: &Src, dst_len: usize) -> Exp {
    let mut e = Exp { ret: (-1, -1), prefix8: vec![], prefix16: vec![], beyond: Beyond::Unspecified, panics: false, borrowed: None, content_unspecified: false };
    let n = src.len(f);
    if f.panics_when_short() && dst_len < f.sufficient(n) { e.panics = true; return e; }
    match f {
        Utf8ToUtf16 => { e.prefix16 = String::from_utf8_lossy(&src.bytes).encode_utf16().collect(); e.ret.1 = e.prefix16.len() as i64; }
        StrToUtf16 => { e.prefix16 = std::str::from_utf8(&src.bytes).expect("harness: valid").encode_utf16().collect(); e.ret.1 = e.prefix16.len() as i64; }
        Utf8ToUtf16NoRepl => match std::str::from_utf8(&src.bytes) { Ok(s) => { e.prefix16 = s.encode_utf16().collect(); e.ret.1 = e.prefix16.len() as i64; } Err(_) => { e.ret = (-2, -2); e.content_unspecified = true; } },
        Utf16ToUtf8 | Utf16ToStr => { let s: String = lossy16(&src.units).into_iter().collect(); e.prefix8 = s.into_bytes(); e.ret.1 = e.prefix8.len() as i64; if f == Utf16ToStr { e.beyond = Beyond::ValidStr; } }
        Utf16ToUtf8Partial | Utf16ToStrPartial => {
            let mut read = 0usize;
            for c in lossy16(&src.units) { let l = c.len_utf8(); if e.prefix8.len() + l > dst_len { break; } let mut b = [0u8; 4]; e.prefix8.extend_from_slice(c.encode_utf8(&mut b).as_bytes()); read += if (c as u32) > 0xFFFF { 2 } else { 1 }; }
            e.ret = (read as i64, e.prefix8.len() as i64);
            e.beyond = if f == Utf16ToUtf8Partial { Beyond::Unmodified } else { Beyond::ValidStr };
        }
        Latin1ToUtf16 => { e.prefix16 = src.bytes.iter().map(|b| *b as u16).collect(); e.ret.1 = n as i64; }
        Latin1ToUtf8 | Latin1ToStr => { let s: String = src.bytes.iter().map(|b| *b as char).collect(); e.prefix8 = s.into_bytes(); e.ret.1 = e.prefix8.len() as i64; if f == Latin1ToStr { e.beyond = Beyond::ValidStr; } }
        Latin1ToUtf8Partial | Latin1ToStrPartial => {
            let mut read = 0usize;
            for b in src.bytes.iter() { let l = if *b < 0x80 { 1 } else { 2 }; if e.prefix8.len() + l > dst_len { break; } let mut bb = [0u8; 4]; e.prefix8.extend_from_slice((*b as char).encode_utf8(&mut bb).as_bytes()); read += 1; }
            e.ret = (read as i64, e.prefix8.len() as i64);
            if f == Latin1ToStrPartial { e.beyond = Beyond::ValidStr; }
        }
        Utf8ToLatin1Lossy => { e.prefix8 = std::str::from_utf8(&src.bytes).expect("harness: valid").chars().map(|c| { assert!((c as u32) < 0x100); c as u8 }).collect(); e.ret.1 = e.prefix8.len() as i64; }
        Utf16ToLatin1Lossy => { e.prefix8 = src.units.iter().map(|u| { assert!(*u < 0x100); *u as u8 }).collect(); e.ret.1 = n as i64; }
        EnsureUtf16Validity => {
            let u = &src.units; let mut i = 0;
            while i < u.len() { let x = u[i]; if (0xD800..0xDC00).contains(&x) && i + 1 < u.len() && (0xDC00..0xE000).contains(&u[i + 1]) { e.prefix16.push(x); e.prefix16.push(u[i + 1]); i += 2; } else if (0xD800..0xE000).contains(&x) { e.prefix16.push(0xFFFD); i += 1; } else { e.prefix16.push(x); i += 1; } }
        }
        CopyAsciiToAscii => { let k = src.bytes.iter().take_while(|b| **b < 0x80).count(); e.prefix8 = src.bytes[..k].to_vec(); e.ret.1 = k as i64; }
        CopyAsciiToBasicLatin => { let k = src.bytes.iter().take_while(|b| **b < 0x80).count(); e.prefix16 = src.bytes[..k].iter().map(|b| *b as u16).collect(); e.ret.1 = k as i64; }
        CopyBasicLatinToAscii => { let k = src.units.iter().take_while(|b| **b < 0x80).count(); e.prefix8 = src.units[..k].iter().map(|b| *b as u8).collect(); e.ret.1 = k as i64; }
        DecodeLatin1 => { let s: String = src.bytes.iter().map(|b| *b as char).collect(); e.prefix8 = s.into_bytes(); e.ret.1 = e.prefix8.len() as i64; e.borrowed = Some(src.bytes.iter().all(|b| *b < 0x80)); }
        EncodeLatin1Lossy => { e.prefix8 = std::str::from_utf8(&src.bytes).expect("harness: valid").chars().map(|c| c as u8).collect(); e.ret.1 = e.prefix8.len() as i64; e.borrowed = Some(src.bytes.iter().all(|b| *b < 0x80)); }
    }
    e
}

/// Compare an observed run with the reference. Returns (kind, detail) for the first disagreement.
pub fn diff(f: MemFn, out: &MemOut, exp: &Exp, dst_len: usize, fill: u8) -> Option<(&'static str, String)> {
    if exp.panics { return None; }
    if let Some(p) = &out.panic { return Some(("panic", format!("panicked: {}", p))); }
    if out.ret != exp.ret { return Some((if f.partial() && out.ret.1 < exp.ret.1 { "not-maximal" } else { "return-value" }, format!("returned {:?}, reference {:?}", out.ret, exp.ret))); }
    if exp.content_unspecified { return None; }
    let fill16 = (fill as u16) << 8 | fill as u16;
    match f.dst_kind() {
        DstKind::D16 | DstKind::InPlace => {
            let w = exp.prefix16.len();
            if out.dst16.len() < w || out.dst16[..w] != exp.prefix16[..] { return Some(("content", format!("wrote [{}], reference [{}]", hex16(&out.dst16[..w.min(out.dst16.len())]), hex16(&exp.prefix16)))); }
            if exp.beyond == Beyond::Unmodified && out.dst16[w..].iter().any(|x| *x != fill16) { return Some(("modified-beyond-written", String::new())); }
        }
        _ => {
            let w = exp.prefix8.len();
            if out.dst8.len() < w || out.dst8[..w] != exp.prefix8[..] { return Some(("content", format!("wrote {}, reference {}", hexs(&out.dst8[..w.min(out.dst8.len())]), hexs(&exp.prefix8)))); }
            if exp.beyond == Beyond::Unmodified { if let Some(k) = out.dst8[w..dst_len.max(w)].iter().position(|x| *x != fill) { return Some(("modified-beyond-written", format!("byte {} beyond written={} changed from {:02x} to {:02x}", w + k, w, fill, out.dst8[w + k]))); } }
            if exp.beyond == Beyond::ValidStr { if let Err(er) = std::str::from_utf8(&out.dst8) { return Some(("invalid-str", format!("destination str invalid at byte {} (written={}): {}", er.valid_up_to(), w, hexs(&out.dst8)))); } }
            // (whether decode_latin1 / encode_latin1_lossy borrow is documented but not part of any property: not compared)
        }
    }
    None
}

// ------------------------------------------------------------------------------------------
// Source generators

pub const UNITS: [u16; 20] = [0x0000, 0x0041, 0x007F, 0x0080, 0x00E9, 0x00FF, 0x0100, 0x07FF, 0x0800, 0x4E00, 0xFFFD, 0xFFFF, 0xD800, 0xDBFF, 0xDC00, 0xDFFF, 0xD83D, 0xDCA9, 0xD7FF, 0xE000];
pub const UNITS_SMALL: [u16; 11] = [0x0041, 0x0080, 0x07FF, 0x0800, 0xFFFF, 0xD800, 0xDBFF, 0xDC00, 0xDFFF, 0xD7FF, 0xE000];
pub const TEXT_CHARS: [char; 14] = ['\u{0}', 'A', '\u{7F}', '\u{80}', '\u{E9}', '\u{FF}', '\u{100}', '\u{7FF}', '\u{800}', '\u{4E00}', '\u{FFFD}', '\u{10000}', '\u{1F4A9}', '\u{10FFFF}'];
pub const BAD_UTF8: [&[u8]; 22] = [b"\x80", b"\xBF", b"\xC0\x80", b"\xC1\xBF", b"\xC2", b"\xE0\x80\x80", b"\xE0\x9F\xBF", b"\xE0\xA0", b"\xED\xA0\x80", b"\xED\xBF\xBF", b"\xEF\xBF", b"\xF0\x80\x80\x80", b"\xF0\x8F\xBF\xBF", b"\xF0\x90\x80", b"\xF4\x90\x80\x80", b"\xF5\x80\x80\x80", b"\xFF", b"\xFE", b"\xF8\x88\x80\x80\x80", b"\xE4\xB8", b"\xF0\x9F\x92", b"\xC3\xC3"];

pub fn gen_src(r: &mut Rng, kind: SrcKind, maxseg: usize) -> Src {
    use crate::alpha::RUNS;
    let mut s = Src::default();
    for _ in 0..r.below(maxseg + 1) {
        let run = *r.pick(&RUNS);
        match kind {
            SrcKind::Units => {
                for i in 0..run { s.units.push(0x61 + (i % 26) as u16); }
                for _ in 0..r.below(4) { s.units.push(*r.pick(&UNITS)); if r.chance(3) { s.units.push(0xDCA9); } }
            }
            SrcKind::Latin1Units => { for i in 0..run { s.units.push(0x61 + (i % 26) as u16); } for _ in 0..r.below(4) { s.units.push([0x00u16, 0x7F, 0x80, 0xA0, 0xE9, 0xFF][r.below(6)]); } }
            SrcKind::Bytes => {
                for i in 0..run { s.bytes.push(0x61 + (i % 26) as u8); }
                for _ in 0..r.below(4) { match r.below(3) { 0 => s.bytes.push(*r.pick(&crate::alpha::HOSTILE)), 1 => { let mut b = [0u8; 4]; s.bytes.extend_from_slice(r.pick(&TEXT_CHARS).encode_utf8(&mut b).as_bytes()); } _ => s.bytes.extend_from_slice(BAD_UTF8[r.below(BAD_UTF8.len())]) } }
            }
            SrcKind::Str => { for i in 0..run { s.bytes.push(0x61 + (i % 26) as u8); } for _ in 0..r.below(4) { let mut b = [0u8; 4]; s.bytes.extend_from_slice(r.pick(&TEXT_CHARS).encode_utf8(&mut b).as_bytes()); } }
            SrcKind::Latin1Str => { for i in 0..run { s.bytes.push(0x61 + (i % 26) as u8); } for _ in 0..r.below(4) { let mut b = [0u8; 4]; s.bytes.extend_from_slice(['\u{0}', '\u{7F}', '\u{80}', '\u{A0}', '\u{E9}', '\u{FF}'][r.below(6)].encode_utf8(&mut b).as_bytes()); } }
        }
    }
    s
}
/// destination length for a random case: dense near 0, near the exact need and near the documented sufficient size
pub fn gen_dst_len(r: &mut Rng, f: MemFn, n: usize) -> usize {
    let suf = f.sufficient(n);
    if f.partial() { match r.below(4) { 0 => r.below(suf + 4), 1 => r.below(8), 2 => suf.saturating_sub(r.below(6)), _ => (n + r.below(n + 2)).min(suf + 3) } }
    else { match r.below(4) { 0 => suf, 1 => suf + r.below(20), 2 => suf + 1, _ => suf + r.below(3) } }
}
