// Guarded, alignment-controlled buffers. Every source and destination handed to the crate is
// a sub-slice of a larger allocation with >= 64 canary units on both sides; in `asan` builds the
// guard zones are additionally poisoned so that the end of every buffer is exact for ASan.

pub const GUARD: usize = 64;

#[cfg(feature = "asan")]
extern "C" {
    fn __asan_poison_memory_region(addr: *const u8, size: usize);
    fn __asan_unpoison_memory_region(addr: *const u8, size: usize);
}
#[inline]
#[allow(unused_variables)]
fn poison(addr: *const u8, size: usize) { #[cfg(feature = "asan")] unsafe { __asan_poison_memory_region(addr, size) } }
#[inline]
#[allow(unused_variables)]
fn unpoison(addr: *const u8, size: usize) { #[cfg(feature = "asan")] unsafe { __asan_unpoison_memory_region(addr, size) } }

pub trait Unit: Copy + PartialEq + std::fmt::Debug { fn canary(i: usize) -> Self; const SIZE: usize; }
impl Unit for u8 { #[inline] fn canary(i: usize) -> u8 { (i.wrapping_mul(31).wrapping_add(0x5D)) as u8 | 0x80 } const SIZE: usize = 1; }
impl Unit for u16 { #[inline] fn canary(i: usize) -> u16 { ((i.wrapping_mul(0x9E37).wrapping_add(0xD9C3)) as u16) | 0x8000 } const SIZE: usize = 2; }

pub struct Buf<T: Unit> { v: Vec<T>, start: usize, len: usize }

impl<T: Unit> Buf<T> {
    pub fn new(maxlen: usize) -> Buf<T> { Buf { v: vec![T::canary(0); maxlen + 2 * GUARD + 32], start: GUARD, len: 0 } }
    fn ensure(&mut self, len: usize) { let need = len + 2 * GUARD + 32; if self.v.len() < need { unpoison(self.v.as_ptr() as *const u8, self.v.len() * T::SIZE); self.v = vec![T::canary(0); need * 2]; } }
    /// Carve a region of `len` units whose start address is congruent to `align` (bytes) modulo 16.
    pub fn carve(&mut self, len: usize, align: usize, fill: T) -> &mut [T] {
        self.ensure(len);
        unpoison(self.v.as_ptr() as *const u8, self.v.len() * T::SIZE);
        let base = self.v.as_ptr() as usize;
        let mut start = GUARD;
        let want = (align % 16) / T::SIZE * T::SIZE;
        while (base + start * T::SIZE) % 16 != want { start += 1; }
        self.start = start; self.len = len;
        for i in start - GUARD..start { self.v[i] = T::canary(i); }
        for i in start + len..start + len + GUARD { self.v[i] = T::canary(i); }
        for x in self.v[start..start + len].iter_mut() { *x = fill; }
        poison(unsafe { self.v.as_ptr().add(start - GUARD) } as *const u8, GUARD * T::SIZE);
        poison(unsafe { self.v.as_ptr().add(start + len) } as *const u8, GUARD * T::SIZE);
        &mut self.v[start..start + len]
    }
    pub fn carve_from(&mut self, data: &[T], align: usize) -> &[T] {
        let s = self.carve(data.len(), align, T::canary(1));
        s.copy_from_slice(data);
        &self.v[self.start..self.start + self.len]
    }
    #[inline] pub fn get(&self) -> &[T] { &self.v[self.start..self.start + self.len] }
    #[inline] pub fn get_mut(&mut self) -> &mut [T] { &mut self.v[self.start..self.start + self.len] }
    /// Verify both guard zones. Returns a description of the first damaged unit.
    pub fn check(&self) -> Option<String> {
        unpoison(self.v.as_ptr() as *const u8, self.v.len() * T::SIZE);
        let (s, l) = (self.start, self.len);
        for i in (s - GUARD..s).rev() { if self.v[i] != T::canary(i) { return Some(format!("write {} unit(s) before the buffer start (found {:?})", s - i, self.v[i])); } }
        for i in s + l..s + l + GUARD { if self.v[i] != T::canary(i) { return Some(format!("write at offset +{} past the buffer end (len {}, found {:?})", i - (s + l), l, self.v[i])); } }
        None
    }
}

/// Valid-UTF-8 fillers for `&mut str` destinations: index selects the multi-byte character,
/// phase shifts it with leading ASCII so that every byte offset can land inside a character.
pub const STR_FILLERS: [&str; 4] = ["\u{E9}", "\u{4E00}", "\u{1F4A9}", "x"];
pub fn fill_valid_utf8(dst: &mut [u8], filler: usize, phase: usize) {
    let f = STR_FILLERS[filler % STR_FILLERS.len()].as_bytes();
    let mut i = 0;
    let ph = phase % f.len().max(1);
    while i < ph && i < dst.len() { dst[i] = b'y'; i += 1; }
    while i + f.len() <= dst.len() { dst[i..i + f.len()].copy_from_slice(f); i += f.len(); }
    while i < dst.len() { dst[i] = b'z'; i += 1; }
}
