// C10 BOM sniffing, BOM removal and no-BOM modes behave as documented for any split.
// Oracle: reference BOM rule (exactly EF BB BF / FE FF / FF FE) selecting encoding + offset, then the
// executable model of that encoding on the remainder (absolute spans); Decoder::encoding(); for_bom.
use crate::alpha::*;
use crate::drive::*;
use crate::ev::*;
use crate::hist::*;
use crate::model::Item;
use crate::util::*;
use encoding_rs::*;

pub fn check(drv: &mut Driver, ev: &mut Ev, case: &DecCase, enumerated: bool) {
    let tr = ev.case();
    let out = drv.run_dec(case, ev);
    let (eff, model) = model_decode_stream(case.enc, case.bom, case.stream);
    if tr { println!("TRACE {} | calls: {} | items: [{}] | model ({}): [{}]", case.describe(), fmt_calls(&out.calls), fmt_items(&out.items), eff.name(), fmt_items(&model)); }
    ev.count("bom-model.histories");
    let looks = case.stream.first().map(|b| matches!(*b, 0xEF | 0xFE | 0xFF)).unwrap_or(false);
    if looks { if enumerated { ev.nontrivial_enum(); } else { ev.nontrivial_hash(case.hash()); } }
    let key = |k: &str| format!("{}:{:?}:{:?}:{}", crate::c01::family(case.enc), case.bom, case.sink, k);
    if let Some(f) = out.fail_of(&[FailKind::Panic, FailKind::Stuck]) {
        ev.violation("bom-model", &key(&format!("{:?}", f.0)), format!("history did not complete ({:?}: {}) | {} | calls: {}", f.0, f.1, case.describe(), fmt_calls(&out.calls)));
        return;
    }
    let exp: Vec<Item> = if case.repl { items_replaced(&model).into_iter().map(Item::C).collect() } else { model.clone() };
    if out.items != exp {
        let k = out.items.iter().zip(exp.iter()).position(|(a, b)| a != b).unwrap_or(out.items.len().min(exp.len()));
        let kind = match (out.items.get(k), exp.get(k)) { (Some(Item::E(..)), Some(Item::E(..))) => "span", (Some(Item::C(_)), Some(Item::C(_))) => "text", _ => "structure" };
        // is this the BOM layer or the underlying decoder? the same stream without any BOM-like first byte is C01's business
        ev.violation("bom-model", &key(kind), format!("got [{}] expected [{}] (decoded as {} by the reference BOM rule) | {} | calls: {}", fmt_items(&out.items), fmt_items(&exp), eff.name(), case.describe(), fmt_calls(&out.calls)));
    }
    // encoding() after the stream: defined once the BOM decision has been made (any non-empty stream that finished)
    if !case.stream.is_empty() && out.finished {
        ev.count("bom-model.encoding()-checks");
        if out.final_enc != Some(eff) { ev.violation("bom-model", &key("encoding()"), format!("Decoder::encoding() reports {} after the stream, reference BOM rule says {} | {}", out.final_enc.map(|e| e.name()).unwrap_or("?"), eff.name(), case.describe())); }
    }
    if case.repl { let exp_had = model.iter().any(|i| matches!(i, Item::E(..))); if out.had_any != exp_had { ev.violation("bom-model", &key("had_errors"), format!("had_errors={} expected {} | {}", out.had_any, exp_had, case.describe())); } }
    ev.state(H::new().s(crate::c01::family(case.enc)).u(case.bom as u64).s(eff.name()).u(case.stream.len().min(4) as u64).get(), || format!("{} {:?} decoded-as={} len={}", crate::c01::family(case.enc), case.bom, eff.name(), case.stream.len().min(4)));
    ev.sample(|| format!("{} -> decoded as {} items [{}]", case.describe(), eff.name(), fmt_items(&out.items)));
}

fn ref_bom(b: &[u8]) -> Option<(&'static Encoding, usize)> {
    if b.len() >= 3 && b[..3] == [0xEF, 0xBB, 0xBF] { Some((UTF_8, 3)) } else if b.len() >= 2 && b[..2] == [0xFF, 0xFE] { Some((UTF_16LE, 2)) } else if b.len() >= 2 && b[..2] == [0xFE, 0xFF] { Some((UTF_16BE, 2)) } else { None }
}

pub fn run(ctx: &Ctx, ev: &mut Ev) {
    let mut drv = Driver::new();
    let th = ctx.thorough();
    let tiny = !ctx.native();
    // (a) 40 encodings x 3 modes x every prefix of length 0..3 over the BOM alphabet x family tails x all cut sets x sinks x capacities
    if ctx.want("enum") {
        let sp = DecSpace { encs: ALL.iter().copied().collect(), small_alpha: true, maxlen: if tiny { 0 } else if th { 2 } else { 1 }, utf16_extra: 1, boms: vec![Bom::Sniff, Bom::Remove, Bom::Off], sinks: vec![Sink::U8, Sink::U16], repls: vec![false, true],
            cap_offsets: vec![vec![0], vec![1], vec![2], vec![40]], last_seps: vec![false, true], stride: if tiny { 199 } else if th { 2 } else { 8 }, prefixes: strings_over(&BOM_ALPHA, 3), fills: vec![0x33], token_streams: (0, 0) };
        ev.note(format!("enum: {}", sp.describe()));
        enum_dec(ctx, ev, &sp, |case, _ng, ev| check(&mut drv, ev, case, true));
        // doubled and mixed BOMs: only the first one may ever be removed
        let mut sp1 = DecSpace { prefixes: vec![vec![0xEF, 0xBB, 0xBF, 0xEF, 0xBB, 0xBF], vec![0xFF, 0xFE, 0xFF, 0xFE], vec![0xFE, 0xFF, 0xFE, 0xFF], vec![0xEF, 0xBB, 0xBF, 0xFF, 0xFE], vec![0xFF, 0xFE, 0xEF, 0xBB, 0xBF], vec![0xFE, 0xFF, 0xFF, 0xFE], vec![0xEF, 0xBB, 0xEF, 0xBB, 0xBF]], maxlen: if tiny { 0 } else { 1 }, ..sp };
        sp1.stride = if tiny { 97 } else { 1 };
        enum_dec(ctx, ev, &sp1, |case, _ng, ev| check(&mut drv, ev, case, true));
        // str / String sinks on the families
        let sp2 = DecSpace { encs: families(), small_alpha: true, maxlen: 1, utf16_extra: 1, boms: vec![Bom::Sniff, Bom::Remove], sinks: vec![Sink::Str, Sink::String], repls: vec![false, true],
            cap_offsets: vec![vec![0], vec![1], vec![3]], last_seps: vec![false, true], stride: if tiny { 199 } else { 1 }, prefixes: strings_over(&BOM_ALPHA, 3), fills: vec![0x33], token_streams: (0, 0) };
        enum_dec(ctx, ev, &sp2, |case, _ng, ev| check(&mut drv, ev, case, true));
    }
    // (b) random longer tails after BOM-like prefixes
    if ctx.want("random") {
        let mut r = ctx.rng(10);
        let n = ctx.budget(200_000, 6_000_000);
        for _ in 0..n {
            let enc = ALL[r.below(40)];
            let mut stream: Vec<u8> = match r.below(8) { 0 => vec![0xEF, 0xBB, 0xBF], 1 => vec![0xFE, 0xFF], 2 => vec![0xFF, 0xFE], 3 => vec![0xEF, 0xBB], 4 => vec![0xEF], _ => (0..r.below(4)).map(|_| *r.pick(&BOM_ALPHA)).collect() };
            let tail = random_stream(&mut r, enc, 3); stream.extend_from_slice(&tail[..tail.len().min(200)]);
            let sink = SINKS[r.below(4)];
            let mut cuts: Vec<usize> = (0..r.below(5)).map(|_| r.below(stream.len().min(5) + 1)).collect(); cuts.extend(random_cuts(&mut r, stream.len())); cuts.sort();
            let caps = random_caps(&mut r, dec_min_cap(sink), true);
            let case = DecCase { enc, bom: BOMS[r.below(3)], sink, repl: r.chance(2), stream: &stream, cuts: &cuts, last_sep: r.chance(2), caps: &caps, fill: 0x33, src_align: r.below(16), dst_align: r.below(16), filler: r.below(16) };
            check(&mut drv, ev, &case, false);
        }
    }
    // (c) Encoding::for_bom on all byte strings of length <= 3 (exhaustive) and longer ones
    if ctx.want("forbom") && !tiny {
        let mut chk = |ev: &mut Ev, b: &[u8]| {
            ev.case(); ev.api_calls += 1; ev.count("for_bom.inputs");
            let g = Encoding::for_bom(b); let e = ref_bom(b);
            if e.is_some() { ev.nontrivial_enum(); }
            if g != e { ev.violation("for_bom", "for_bom", format!("for_bom({}) = {:?}, reference {:?}", hex(b), g.map(|x| (x.0.name(), x.1)), e.map(|x| (x.0.name(), x.1)))); }
        };
        if ev.mine() { chk(ev, &[]); }
        for a in 0..=255u8 {
            if !ev.mine() { continue; }
            chk(ev, &[a]);
            for b in 0..=255u8 { chk(ev, &[a, b]); for c in 0..=255u8 { chk(ev, &[a, b, c]); } if matches!(a, 0xEF | 0xFE | 0xFF) { for c in [0x00u8, 0xBB, 0xBF, 0xFE, 0xFF] { chk(ev, &[a, b, c, 0xBF]); chk(ev, &[a, b, c, 0xFE, 0xFF]); } } }
        }
        ev.exhaustive("Encoding::for_bom on all 16,843,009 byte strings of length <= 3");
    }
}
