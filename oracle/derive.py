#!/usr/bin/env python3
"""Derivation / provenance re-check of the oracle snapshots in this directory.

The snapshots (index-*.txt, gb18030-ranges-cpython.txt, labels.tsv) are what the
harness compiles in (include_str!) and are never read from /repo at check time.
This script shows where they come from and, with --verify, recomputes them and
compares with the committed files:

* big5, jis0208, jis0212, euc-kr, gb18030 two-byte indexes: from the pinned
  tests/test_data/*_in.txt + *_in_ref.txt pairs (line n after a 4-line header
  is pointer n; U+FFFD means "no mapping"), i.e. from the upstream generator's
  copy of indexes.json, not from src/data.rs.
* 27 single-byte indexes: CPython codecs + three WHATWG rules.
* gb18030 four-byte BMP map: CPython's gb18030 codec over all 39,420 pointers.
* labels.tsv: the generated test src/test_labels_names.rs (from encodings.json).

usage: derive.py --verify [--repo /repo]     exit 0 iff every snapshot is reproduced
       derive.py --write  [--repo /repo]     (re)write the snapshots
"""
import re, sys, os

HERE = os.path.dirname(os.path.abspath(__file__))


def derive(repo):
    TD = repo + '/tests/test_data'
    out = {}

    def lines(path):
        raw = open(path, 'rb').read().split(b'\n')
        return raw[4:]  # 3 text lines + 1 blank line of header

    def index_from(in_name, ref_name, n):
        refs = lines(f'{TD}/{ref_name}')
        res = []
        for p in range(n):
            ref = refs[p].decode('utf-8')
            if ref.startswith('�'):
                res.append(None)
            else:
                res.append([ord(c) for c in ref])
        return res

    def fmt_index(idx):
        s = []
        for p, v in enumerate(idx):
            if v is not None:
                s.append('%d\t%s\n' % (p, ' '.join('0x%04X' % c for c in v)))
        return ''.join(s)

    out['index-big5.txt'] = fmt_index(index_from('big5_in.txt', 'big5_in_ref.txt', 19782))
    out['index-euc-kr.txt'] = fmt_index(index_from('euc_kr_in.txt', 'euc_kr_in_ref.txt', 23940))
    out['index-gb18030.txt'] = fmt_index(index_from('gb18030_in.txt', 'gb18030_in_ref.txt', 23940))
    out['index-jis0212.txt'] = fmt_index(index_from('jis0212_in.txt', 'jis0212_in_ref.txt', 8836))
    sj = index_from('shift_jis_in.txt', 'shift_jis_in_ref.txt', 11280)
    # pointers 8836..10715 are the EUDC range the Shift_JIS decoder maps to PUA by rule; not index entries
    for p in range(8836, 10716):
        if sj[p] is not None:
            assert sj[p] == [0xE000 - 8836 + p], (p, sj[p])
            sj[p] = None
    j08 = index_from('jis0208_in.txt', 'jis0208_in_ref.txt', 8836)
    for p in range(8836):
        assert j08[p] == sj[p], (p, j08[p], sj[p])
    out['index-jis0208.txt'] = fmt_index(sj)
    pymap = {'IBM866': 'cp866', 'ISO-8859-2': 'iso8859_2', 'ISO-8859-3': 'iso8859_3', 'ISO-8859-4': 'iso8859_4',
             'ISO-8859-5': 'iso8859_5', 'ISO-8859-6': 'iso8859_6', 'ISO-8859-7': 'iso8859_7', 'ISO-8859-8': 'iso8859_8',
             'ISO-8859-10': 'iso8859_10', 'ISO-8859-13': 'iso8859_13', 'ISO-8859-14': 'iso8859_14',
             'ISO-8859-15': 'iso8859_15', 'ISO-8859-16': 'iso8859_16', 'KOI8-R': 'koi8_r', 'KOI8-U': 'koi8_u',
             'macintosh': 'mac_roman', 'windows-874': 'cp874', 'windows-1250': 'cp1250', 'windows-1251': 'cp1251',
             'windows-1252': 'cp1252', 'windows-1253': 'cp1253', 'windows-1254': 'cp1254', 'windows-1255': 'cp1255',
             'windows-1256': 'cp1256', 'windows-1257': 'cp1257', 'windows-1258': 'cp1258', 'x-mac-cyrillic': 'mac_cyrillic'}
    for name, py in pymap.items():
        idx = []
        for b in range(0x80, 0x100):
            try:
                cp = ord(bytes([b]).decode(py))
            except UnicodeDecodeError:
                cp = None
            if cp is None and name.startswith('windows-') and b < 0xA0:
                cp = b  # rule 1: unassigned C1 cells pass through
            idx.append([cp] if cp is not None else None)
        if name == 'windows-1255':
            idx[0xCA - 0x80] = [0x05BA]  # rule 3
        if name == 'KOI8-U':
            idx[0xAE - 0x80] = [0x045E]
            idx[0xBE - 0x80] = [0x040E]  # rule 2: KOI8-RU variant
        out['index-%s.txt' % name] = fmt_index(idx)
    s = []
    prev = None
    for p in range(0, 39420):
        b1 = p // 12600
        r = p % 12600
        b2 = r // 1260
        r = r % 1260
        b3 = r // 10
        b4 = r % 10
        bs = bytes([b1 + 0x81, b2 + 0x30, b3 + 0x81, b4 + 0x30])
        try:
            cp = ord(bs.decode('gb18030'))
        except UnicodeDecodeError:
            cp = None
        d = None if cp is None else cp - p
        if d != prev:
            s.append('%d\t%s\n' % (p, 'null' if cp is None else '0x%04X' % cp))
            prev = d
    out['gb18030-ranges-cpython.txt'] = ''.join(s)
    s = []
    for m in re.finditer(r'for_label\(\s*b"([^"]+)"\s*\),\s*Some\((\w+)\)', open(repo + '/src/test_labels_names.rs').read()):
        s.append('%s\t%s\n' % (m.group(1), m.group(2)))
    out['labels.tsv'] = ''.join(s)
    return out


def main():
    repo = '/repo'
    if '--repo' in sys.argv:
        repo = sys.argv[sys.argv.index('--repo') + 1]
    out = derive(repo)
    if '--write' in sys.argv:
        for k, v in out.items():
            open(os.path.join(HERE, k), 'w').write(v)
        print('wrote %d files' % len(out))
        return 0
    bad = 0
    for k, v in sorted(out.items()):
        cur = open(os.path.join(HERE, k)).read()
        if cur != v:
            print('MISMATCH', k)
            bad += 1
    print('oracle snapshots: %d files, %d mismatches' % (len(out), bad))
    return 1 if bad else 0


if __name__ == '__main__':
    sys.exit(main())
